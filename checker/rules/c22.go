package rules

import (
	"fmt"
	"go/token"
	"go/types"
	"sort"
	"strings"

	"golang.org/x/tools/go/ssa"

	"mmverify/kit"
)

func init() {
	register(&Check{
		ID: "C22", Level: "other", Patterns: []string{"./internal/socks5", "./internal/agent"},
		Technique: "must-pass-through on the CFG (verified-source edges), value provenance of the reply address, program-wide write-set of ActualClientAddr",
		Explain: "Decides, for every function that reads datagrams from a UDP association socket, that each path from the read to a relay into the mesh (UDPAssociationHandler.RelayUDPDatagram, directly or through a helper) and to a store of UDPAssociation.ActualClientAddr crosses an edge on which the datagram's source address compared equal to an owner identity (the address named in the request, the recorded client, or the TCP control connection's peer address and nothing else), and that every datagram written to the association socket is addressed to the recorded client only. " +
			"Not decided: spoofed source addresses, and that the owner identity is compared by IP only (other sockets on the client's host are the same owner).",
		Run: runC22,
		SelfTests: []SelfTest{
			{Name: "unknown owner fails open (the original defect)", ExpectRule: "C22.R1", Edits: []Edit{
				{File: "internal/socks5/udp.go", Old: "if owner == nil || !clientAddr.IP.Equal(owner) {", New: "if owner != nil && !clientAddr.IP.Equal(owner) {"},
			}},
			{Name: "relay on mismatch (inverted comparison)", ExpectRule: "C22.R1", Edits: []Edit{
				{File: "internal/socks5/udp.go", Old: "if owner == nil || !clientAddr.IP.Equal(owner) {", New: "if owner == nil || clientAddr.IP.Equal(owner) {"},
			}},
			{Name: "source compared with itself", ExpectRule: "C22.R1", Edits: []Edit{
				{File: "internal/socks5/udp.go", Old: "if owner == nil || !clientAddr.IP.Equal(owner) {", New: "if owner == nil || !clientAddr.IP.Equal(clientAddr.IP) {"},
			}},
			{Name: "owner falls back to a value that is not the client's", ExpectRule: "C22.R1", Edits: []Edit{
				{File: "internal/socks5/udp.go", Old: "\t\t\treturn tcpAddr.IP\n", New: "\t\t\treturn tcpAddr.IP\n\t\t}\n\t\tif la, ok := a.TCPConn.LocalAddr().(*net.TCPAddr); ok {\n\t\t\treturn la.IP\n"},
			}},
			{Name: "check only when an address was named (pre-fix form)", ExpectRule: "C22.R1", Edits: []Edit{
				{File: "internal/socks5/udp.go", Old: "\t\towner := a.ownerIP()\n\t\tif owner == nil || !clientAddr.IP.Equal(owner) {\n\t\t\tcontinue\n\t\t}\n", New: "\t\ta.mu.RLock()\n\t\texpected := a.ExpectedClientAddr\n\t\ta.mu.RUnlock()\n\t\tif expected != nil && expected.IP != nil && !expected.IP.IsUnspecified() {\n\t\t\tif !clientAddr.IP.Equal(expected.IP) {\n\t\t\t\tcontinue\n\t\t\t}\n\t\t}\n"},
			}},
			{Name: "first sender recorded before the check", ExpectRule: "C22.R2", Edits: []Edit{
				{File: "internal/socks5/udp.go", Old: "\t\ta.mu.Lock()\n\t\tif a.ActualClientAddr == nil {\n\t\t\ta.ActualClientAddr = clientAddr\n\t\t}\n\t\ta.mu.Unlock()\n", New: ""},
				{File: "internal/socks5/udp.go", Old: "\t\towner := a.ownerIP()\n", New: "\t\ta.mu.Lock()\n\t\tif a.ActualClientAddr == nil {\n\t\t\ta.ActualClientAddr = clientAddr\n\t\t}\n\t\ta.mu.Unlock()\n\t\towner := a.ownerIP()\n"},
			}},
			{Name: "reply target pre-seeded from the request", ExpectRule: "C22.R2", Edits: []Edit{
				{File: "internal/socks5/udp.go", Old: "\ta.ExpectedClientAddr = addr\n", New: "\ta.ExpectedClientAddr = addr\n\ta.ActualClientAddr = addr\n"},
			}},
			{Name: "no owner known: first sender accepted and pinned (seed C22-a class)", ExpectRule: "C22.R1", Edits: []Edit{
				{File: "internal/socks5/udp.go", Old: "\t\towner := a.ownerIP()\n\t\tif owner == nil || !clientAddr.IP.Equal(owner) {\n\t\t\tcontinue\n\t\t}\n", New: "\t\tif !a.fromOwner(clientAddr) {\n\t\t\tcontinue\n\t\t}\n"},
				{File: "internal/socks5/udp.go", Old: "// ReadLoop reads datagrams from the SOCKS5 client", New: "func (a *UDPAssociation) fromOwner(addr *net.UDPAddr) bool {\n\tif owner := a.ownerIP(); owner != nil {\n\t\treturn addr.IP.Equal(owner)\n\t}\n\treturn a.TCPConn != nil && a.TCPConn.RemoteAddr() == nil\n}\n\n// ReadLoop reads datagrams from the SOCKS5 client"},
			}},
			{Name: "owner learned from the first datagram", ExpectRule: "C22.R1", Edits: []Edit{
				{File: "internal/socks5/udp.go", Old: "\t\towner := a.ownerIP()\n", New: "\t\ta.mu.Lock()\n\t\tif a.ExpectedClientAddr == nil {\n\t\t\ta.ExpectedClientAddr = clientAddr\n\t\t}\n\t\ta.mu.Unlock()\n\t\towner := a.ownerIP()\n"},
			}},
			{Name: "source check applied to the previous datagram's sender", ExpectRule: "C22.R1", Edits: []Edit{
				{File: "internal/socks5/udp.go", Old: "\tbuf := make([]byte, 65535) // Max UDP datagram size\n", New: "\tbuf := make([]byte, 65535) // Max UDP datagram size\n\tvar last *net.UDPAddr\n"},
				{File: "internal/socks5/udp.go", Old: "\t\tif owner == nil || !clientAddr.IP.Equal(owner) {\n\t\t\tcontinue\n\t\t}\n", New: "\t\tprev := last\n\t\tlast = clientAddr\n\t\tif owner == nil || prev == nil || !prev.IP.Equal(owner) {\n\t\t\tcontinue\n\t\t}\n"},
			}},
			{Name: "second datagram read after the check is relayed unchecked", ExpectRule: "C22.R1", Edits: []Edit{
				{File: "internal/socks5/udp.go", Old: "\t\t// Parse SOCKS5 UDP header\n\t\theader, payload, err := ParseUDPHeader(buf[:n])\n", New: "\t\tif n < 10 {\n\t\t\tn, _, err = a.UDPConn.ReadFromUDP(buf)\n\t\t\tif err != nil {\n\t\t\t\tcontinue\n\t\t\t}\n\t\t}\n\t\t// Parse SOCKS5 UDP header\n\t\theader, payload, err := ParseUDPHeader(buf[:n])\n"},
			}},
			{Name: "recorded address is one reused struct refilled on every read (seed C22-b class)", ExpectRule: "C22.R2", Edits: []Edit{
				{File: "internal/socks5/udp.go", Old: "\tbuf := make([]byte, 65535) // Max UDP datagram size\n", New: "\tbuf := make([]byte, 65535) // Max UDP datagram size\n\tclientAddr := &net.UDPAddr{}\n"},
				{File: "internal/socks5/udp.go", Old: "\t\tn, clientAddr, err := a.UDPConn.ReadFromUDP(buf)\n\t\tif err != nil {\n\t\t\tif a.IsClosed() {\n\t\t\t\treturn\n\t\t\t}\n\t\t\tcontinue\n\t\t}\n", New: "\t\tn, from, err := a.UDPConn.ReadFromUDPAddrPort(buf)\n\t\tif err != nil {\n\t\t\tif a.IsClosed() {\n\t\t\t\treturn\n\t\t\t}\n\t\t\tcontinue\n\t\t}\n\t\tclientAddr.IP = from.Addr().AsSlice()\n\t\tclientAddr.Port = int(from.Port())\n"},
			}},
			{Name: "recorded address refreshed in place before the check", ExpectRule: "C22.R2", Edits: []Edit{
				{File: "internal/socks5/udp.go", Old: "\t\towner := a.ownerIP()\n", New: "\t\ta.mu.Lock()\n\t\tif a.ActualClientAddr != nil {\n\t\t\ta.ActualClientAddr.Port = clientAddr.Port\n\t\t}\n\t\ta.mu.Unlock()\n\t\towner := a.ownerIP()\n"},
			}},
			{Name: "replies sent to the address named in the request", ExpectRule: "C22.R3", Edits: []Edit{
				{File: "internal/socks5/udp.go", Old: "\tclientAddr := a.ActualClientAddr\n", New: "\tclientAddr := a.ExpectedClientAddr\n"},
			}},
			{Name: "rewrite: two separate early continues, operands swapped", Edits: []Edit{
				{File: "internal/socks5/udp.go", Old: "if owner == nil || !clientAddr.IP.Equal(owner) {\n\t\t\tcontinue\n\t\t}", New: "if owner == nil {\n\t\t\tcontinue\n\t\t}\n\t\tif !owner.Equal(clientAddr.IP) {\n\t\t\tcontinue\n\t\t}"},
			}},
			{Name: "rewrite: check extracted into a bool helper", Edits: []Edit{
				{File: "internal/socks5/udp.go", Old: "\t\towner := a.ownerIP()\n\t\tif owner == nil || !clientAddr.IP.Equal(owner) {\n\t\t\tcontinue\n\t\t}\n", New: "\t\tif !a.fromOwner(clientAddr) {\n\t\t\tcontinue\n\t\t}\n"},
				{File: "internal/socks5/udp.go", Old: "// ReadLoop reads datagrams from the SOCKS5 client", New: "func (a *UDPAssociation) fromOwner(src *net.UDPAddr) bool {\n\towner := a.ownerIP()\n\treturn owner != nil && src.IP.Equal(owner)\n}\n\n// ReadLoop reads datagrams from the SOCKS5 client"},
			}},
			{Name: "rewrite: recorded client checked first, owner otherwise; relay in a helper", Edits: []Edit{
				{File: "internal/socks5/udp.go", Old: "\t\towner := a.ownerIP()\n\t\tif owner == nil || !clientAddr.IP.Equal(owner) {\n\t\t\tcontinue\n\t\t}\n", New: "\t\ta.mu.RLock()\n\t\tknown := a.ActualClientAddr\n\t\ta.mu.RUnlock()\n\t\tif known != nil {\n\t\t\tif !known.IP.Equal(clientAddr.IP) {\n\t\t\t\tcontinue\n\t\t\t}\n\t\t} else if owner := a.ownerIP(); owner == nil || !clientAddr.IP.Equal(owner) {\n\t\t\tcontinue\n\t\t}\n"},
				{File: "internal/socks5/udp.go", Old: "\t\t\thandler.RelayUDPDatagram(streamID, destAddr, header.Port, header.AddrType, header.RawAddr, payload)\n", New: "\t\t\trelayVia(handler, streamID, destAddr, header, payload)\n"},
				{File: "internal/socks5/udp.go", Old: "// ReadLoop reads datagrams from the SOCKS5 client", New: "func relayVia(h UDPAssociationHandler, id uint64, dst net.Addr, hd *UDPHeader, payload []byte) {\n\th.RelayUDPDatagram(id, dst, hd.Port, hd.AddrType, hd.RawAddr, payload)\n}\n\n// ReadLoop reads datagrams from the SOCKS5 client"},
			}},
			{Name: "rewrite: verdict kept in a bool variable", Edits: []Edit{
				{File: "internal/socks5/udp.go", Old: "\t\tif owner == nil || !clientAddr.IP.Equal(owner) {\n\t\t\tcontinue\n\t\t}\n", New: "\t\tfromOwner := owner != nil && clientAddr.IP.Equal(owner)\n\t\tif !fromOwner {\n\t\t\tcontinue\n\t\t}\n"},
			}},
			{Name: "rewrite: allocation-free read, fresh UDPAddr built per datagram; port of the recorded client refreshed after the check", Edits: []Edit{
				{File: "internal/socks5/udp.go", Old: "\t\tn, clientAddr, err := a.UDPConn.ReadFromUDP(buf)\n\t\tif err != nil {\n\t\t\tif a.IsClosed() {\n\t\t\t\treturn\n\t\t\t}\n\t\t\tcontinue\n\t\t}\n", New: "\t\tn, from, err := a.UDPConn.ReadFromUDPAddrPort(buf)\n\t\tif err != nil {\n\t\t\tif a.IsClosed() {\n\t\t\t\treturn\n\t\t\t}\n\t\t\tcontinue\n\t\t}\n\t\tclientAddr := &net.UDPAddr{IP: from.Addr().AsSlice(), Port: int(from.Port())}\n"},
				{File: "internal/socks5/udp.go", Old: "\t\tif a.ActualClientAddr == nil {\n\t\t\ta.ActualClientAddr = clientAddr\n\t\t}\n", New: "\t\tif a.ActualClientAddr == nil {\n\t\t\ta.ActualClientAddr = clientAddr\n\t\t} else {\n\t\t\ta.ActualClientAddr.Port = clientAddr.Port\n\t\t}\n"},
			}},
			{Name: "rewrite: per-datagram work (check, record, relay) moved into a helper", Edits: []Edit{
				{File: "internal/socks5/udp.go", Old: "\t\t// Only the client that owns the association may use the relay.\n", New: "\t\ta.handleDatagram(buf[:n], clientAddr)\n\t}\n}\n\nfunc (a *UDPAssociation) handleDatagram(data []byte, clientAddr *net.UDPAddr) {\n\tfor once := true; once; once = false {\n\t\tn := len(data)\n\t\tbuf := data\n\t\t// Only the client that owns the association may use the relay.\n"},
			}},
			{Name: "helper records the sender before its own source check", ExpectRule: "C22.R2", Edits: []Edit{
				{File: "internal/socks5/udp.go", Old: "\t\t// Only the client that owns the association may use the relay.\n", New: "\t\ta.handleDatagram(buf[:n], clientAddr)\n\t}\n}\n\nfunc (a *UDPAssociation) handleDatagram(data []byte, clientAddr *net.UDPAddr) {\n\tfor once := true; once; once = false {\n\t\tn := len(data)\n\t\tbuf := data\n\t\t// Only the client that owns the association may use the relay.\n"},
				{File: "internal/socks5/udp.go", Old: "\t\ta.mu.Lock()\n\t\tif a.ActualClientAddr == nil {\n\t\t\ta.ActualClientAddr = clientAddr\n\t\t}\n\t\ta.mu.Unlock()\n", New: ""},
				{File: "internal/socks5/udp.go", Old: "\t\towner := a.ownerIP()\n", New: "\t\ta.mu.Lock()\n\t\tif a.ActualClientAddr == nil {\n\t\t\ta.ActualClientAddr = clientAddr\n\t\t}\n\t\ta.mu.Unlock()\n\t\towner := a.ownerIP()\n"},
			}},
			{Name: "relay started asynchronously on views of the reused receive buffer (seed C22-d class)", ExpectRule: "C22.R4", Edits: []Edit{
				{File: "internal/socks5/udp.go", Old: "\t\t\thandler.RelayUDPDatagram(streamID, destAddr, header.Port, header.AddrType, header.RawAddr, payload)\n", New: "\t\t\tgo handler.RelayUDPDatagram(streamID, destAddr, header.Port, header.AddrType, header.RawAddr, payload)\n"},
			}},
			{Name: "relay in a goroutine closure capturing the parsed header and payload", ExpectRule: "C22.R4", Edits: []Edit{
				{File: "internal/socks5/udp.go", Old: "\t\t\thandler.RelayUDPDatagram(streamID, destAddr, header.Port, header.AddrType, header.RawAddr, payload)\n", New: "\t\t\tgo func() {\n\t\t\t\thandler.RelayUDPDatagram(streamID, destAddr, header.Port, header.AddrType, header.RawAddr, payload)\n\t\t\t}()\n"},
			}},
			{Name: "asynchronous relay of copied payload but aliased destination bytes", ExpectRule: "C22.R4", Edits: []Edit{
				{File: "internal/socks5/udp.go", Old: "\t\t\thandler.RelayUDPDatagram(streamID, destAddr, header.Port, header.AddrType, header.RawAddr, payload)\n", New: "\t\t\tdata := append([]byte(nil), payload...)\n\t\t\tgo handler.RelayUDPDatagram(streamID, destAddr, header.Port, header.AddrType, header.RawAddr, data)\n"},
			}},
			{Name: "rewrite: asynchronous relay of copies of address and payload", Edits: []Edit{
				{File: "internal/socks5/udp.go", Old: "\t\t\tdestAddr := &net.UDPAddr{IP: header.Address, Port: int(header.Port)}\n\t\t\thandler.RelayUDPDatagram(streamID, destAddr, header.Port, header.AddrType, header.RawAddr, payload)\n", New: "\t\t\traw := append([]byte(nil), header.RawAddr...)\n\t\t\tdata := append([]byte(nil), payload...)\n\t\t\tdst := &net.UDPAddr{IP: append(net.IP(nil), header.Address...), Port: int(header.Port)}\n\t\t\tgo handler.RelayUDPDatagram(streamID, dst, header.Port, header.AddrType, raw, data)\n"},
			}},
			{Name: "rewrite: a fresh receive buffer per datagram, relay asynchronous", Edits: []Edit{
				{File: "internal/socks5/udp.go", Old: "\tbuf := make([]byte, 65535) // Max UDP datagram size\n\n\tfor {\n", New: "\tfor {\n\t\tbuf := make([]byte, 65535)\n"},
				{File: "internal/socks5/udp.go", Old: "\t\t\thandler.RelayUDPDatagram(streamID, destAddr, header.Port, header.AddrType, header.RawAddr, payload)\n", New: "\t\t\tgo handler.RelayUDPDatagram(streamID, destAddr, header.Port, header.AddrType, header.RawAddr, payload)\n"},
			}},
			{Name: "rewrite: reply address copied into a fresh UDPAddr", Edits: []Edit{
				{File: "internal/socks5/udp.go", Old: "\t_, err := a.UDPConn.WriteToUDP(packet, clientAddr)\n", New: "\tdst := &net.UDPAddr{IP: clientAddr.IP, Port: clientAddr.Port}\n\t_, err := a.UDPConn.WriteToUDP(packet, dst)\n"},
			}},
		},
	})
}

// c22Orig is the set of origins an address-valued expression can have.
type c22Orig struct {
	source, expected, actual, ctrl, nilc, other bool
}

func (o *c22Orig) join(b c22Orig) {
	o.source = o.source || b.source
	o.expected = o.expected || b.expected
	o.actual = o.actual || b.actual
	o.ctrl = o.ctrl || b.ctrl
	o.nilc = o.nilc || b.nilc
	o.other = o.other || b.other
}

// pureSource: the value is the datagram's source address (or derived from it) and nothing else.
func (o c22Orig) pureSource() bool {
	return o.source && !o.expected && !o.actual && !o.ctrl && !o.other && !o.nilc
}

// pureOwner: the value is an owner identity (possibly nil) and nothing else.
func (o c22Orig) pureOwner() bool {
	return (o.expected || o.actual || o.ctrl) && !o.source && !o.other
}

func (o c22Orig) String() string {
	var s []string
	for _, t := range []struct {
		b bool
		n string
	}{{o.source, "datagram-source"}, {o.expected, "ExpectedClientAddr"}, {o.actual, "ActualClientAddr"}, {o.ctrl, "control-connection-peer"}, {o.nilc, "nil"}, {o.other, "other"}} {
		if t.b {
			s = append(s, t.n)
		}
	}
	return "{" + strings.Join(s, ",") + "}"
}

type c22cx struct {
	p                              *kit.Program
	fExpected, fActual, fTCP, fUDP *types.Var
	relayingFns                    map[*ssa.Function]bool
}

const c22MaxDepth = 4

// c22IsNetStructField: the field belongs to a struct declared in net or net/netip (UDPAddr.IP, TCPAddr.IP, ...).
func c22IsNetStructField(f *types.Var) bool {
	return f != nil && f.Pkg() != nil && (f.Pkg().Path() == "net" || f.Pkg().Path() == "net/netip")
}

// c22ReadAddrResult: call is a datagram read on a UDP socket; returns the index of the result
// that carries the sender's address (-1 if the call is not such a read).
func c22ReadAddrResult(call ssa.CallInstruction) int {
	cal := kit.CalleeOf(call)
	if cal.Pkg != "net" || !strings.HasPrefix(cal.Name, "Read") {
		return -1
	}
	if cal.Recv != "UDPConn" && cal.Recv != "PacketConn" {
		return -1
	}
	sig := call.Common().Signature()
	if sig == nil {
		return -1
	}
	for i := 0; i < sig.Results().Len(); i++ {
		if c22IsAddrType(sig.Results().At(i).Type()) {
			return i
		}
	}
	return -1
}

func c22IsAddrType(t types.Type) bool {
	s := t.String()
	return s == "*net.UDPAddr" || s == "net.Addr" || s == "net/netip.AddrPort"
}

func (cx *c22cx) origin(v ssa.Value, bind map[*ssa.Parameter]c22Orig, depth int, seen map[ssa.Value]bool) (o c22Orig) {
	if v == nil {
		o.other = true
		return
	}
	if seen[v] {
		return
	}
	seen[v] = true
	switch x := v.(type) {
	case *ssa.Const:
		if kit.IsNilConst(x) {
			o.nilc = true
		} else {
			o.other = true
		}
	case *ssa.Phi:
		for _, e := range x.Edges {
			o.join(cx.origin(e, bind, depth, seen))
		}
	case *ssa.Extract:
		switch t := x.Tuple.(type) {
		case *ssa.Call:
			o = cx.callOrigin(t, x.Index, bind, depth, seen)
		case *ssa.TypeAssert:
			if x.Index == 0 {
				o = cx.origin(t.X, bind, depth, seen)
			} else {
				o.other = true
			}
		default:
			o.other = true
		}
	case *ssa.TypeAssert:
		o = cx.origin(x.X, bind, depth, seen)
	case *ssa.Call:
		o = cx.callOrigin(x, 0, bind, depth, seen)
	case *ssa.UnOp:
		if x.Op != token.MUL {
			o.other = true
			return
		}
		switch a := x.X.(type) {
		case *ssa.FieldAddr:
			f := kit.FieldOfAddr(a)
			switch {
			case f == cx.fExpected:
				o.expected = true
			case f == cx.fActual:
				o.actual = true
			case c22IsNetStructField(f):
				o = cx.origin(a.X, bind, depth, seen)
			default:
				o.other = true
			}
		case *ssa.Alloc:
			o = cx.allocOrigin(a, bind, depth, seen)
		case *ssa.IndexAddr:
			o = cx.origin(a.X, bind, depth, seen)
		default:
			o.other = true
		}
	case *ssa.Field:
		if c22IsNetStructField(kit.FieldOfAddr(x)) {
			o = cx.origin(x.X, bind, depth, seen)
		} else {
			o.other = true
		}
	case *ssa.Alloc:
		o = cx.allocOrigin(x, bind, depth, seen)
	case *ssa.Convert:
		o = cx.origin(x.X, bind, depth, seen)
	case *ssa.ChangeType:
		o = cx.origin(x.X, bind, depth, seen)
	case *ssa.MakeInterface:
		o = cx.origin(x.X, bind, depth, seen)
	case *ssa.ChangeInterface:
		o = cx.origin(x.X, bind, depth, seen)
	case *ssa.Slice:
		o = cx.origin(x.X, bind, depth, seen)
	case *ssa.Parameter:
		if b, ok := bind[x]; ok {
			o = b
		} else {
			o.other = true
		}
	default:
		o.other = true
	}
	return
}

// allocOrigin: a local variable or a composite literal: the join of everything stored into it
// (whole-value stores and stores into its pointer/slice/interface-typed or integer fields).
func (cx *c22cx) allocOrigin(a *ssa.Alloc, bind map[*ssa.Parameter]c22Orig, depth int, seen map[ssa.Value]bool) (o c22Orig) {
	refs := a.Referrers()
	if refs == nil {
		o.other = true
		return
	}
	n := 0
	for _, r := range *refs {
		switch rr := r.(type) {
		case *ssa.Store:
			if rr.Addr == a {
				n++
				o.join(cx.origin(rr.Val, bind, depth, seen))
			}
		case *ssa.FieldAddr:
			if rr.X != a || rr.Referrers() == nil {
				continue
			}
			for _, r2 := range *rr.Referrers() {
				if st, ok := r2.(*ssa.Store); ok && st.Addr == rr {
					n++
					o.join(cx.origin(st.Val, bind, depth, seen))
				}
			}
		}
	}
	if n == 0 {
		o.nilc = true // zero value
	}
	return
}

func (cx *c22cx) callOrigin(call *ssa.Call, idx int, bind map[*ssa.Parameter]c22Orig, depth int, seen map[ssa.Value]bool) (o c22Orig) {
	if ri := c22ReadAddrResult(call); ri >= 0 {
		if idx == ri {
			o.source = true
		} else {
			o.other = true
		}
		return
	}
	cal := kit.CalleeOf(call)
	if cal.Iface && cal.Name == "RemoteAddr" && cal.Pkg == "net" {
		if f, _ := kit.LoadedField(call.Call.Value); f == cx.fTCP && f != nil {
			o.ctrl = true
		} else {
			o.other = true
		}
		return
	}
	if cal.Static != nil && cal.Static.Blocks != nil && kit.IsRepoPkg(cal.Pkg) {
		if depth >= c22MaxDepth {
			o.other = true
			return
		}
		b2 := map[*ssa.Parameter]c22Orig{}
		for i, prm := range cal.Static.Params {
			if i < len(call.Call.Args) {
				b2[prm] = cx.origin(call.Call.Args[i], bind, depth, map[ssa.Value]bool{})
			}
		}
		leaves := kit.ResultLeaves(cal.Static, idx)
		if len(leaves) == 0 {
			o.other = true
		}
		for _, l := range leaves {
			o.join(cx.origin(l.Val, b2, depth+1, map[ssa.Value]bool{}))
		}
		return
	}
	if cal.Pkg == "net" || cal.Pkg == "net/netip" {
		// pure derivations (To4, To16, AddrPort, Addr, Unmap, AddrFromSlice, ...): the origins of the operands
		var ops []ssa.Value
		if call.Call.IsInvoke() {
			ops = append(ops, call.Call.Value)
		}
		ops = append(ops, call.Call.Args...)
		if len(ops) == 0 {
			o.other = true
		}
		for _, a := range ops {
			o.join(cx.origin(a, bind, depth, seen))
		}
		return
	}
	o.other = true
	return
}

// match decides whether "cond == pol" establishes that the datagram's source address equals an
// owner identity: an equality (==, Equal(..), Compare(..)==0) between a pure source operand and a
// pure owner operand, or a repository helper that returns true only under such an equality.
func (cx *c22cx) match(cond ssa.Value, pol bool, bind map[*ssa.Parameter]c22Orig, depth int) bool {
	org := func(v ssa.Value) c22Orig { return cx.origin(v, bind, depth, map[ssa.Value]bool{}) }
	pair := func(ops []ssa.Value) bool {
		for i, a := range ops {
			if !org(a).pureSource() {
				continue
			}
			for j, b := range ops {
				if i != j && org(b).pureOwner() {
					return true
				}
			}
		}
		return false
	}
	switch x := cond.(type) {
	case *ssa.UnOp:
		if x.Op == token.NOT {
			return cx.match(x.X, !pol, bind, depth)
		}
	case *ssa.Phi:
		// a boolean variable (`ok := owner != nil && src.Equal(owner)`): it has the value pol only
		// along edges whose value is itself a match (constant edges must carry the other value)
		if depth >= c22MaxDepth {
			return false
		}
		some := false
		for _, e := range x.Edges {
			if c, isConst := kit.ConstBool(e); isConst {
				if c == pol {
					return false
				}
				continue
			}
			if !cx.match(e, pol, bind, depth+1) {
				return false
			}
			some = true
		}
		return some
	case *ssa.BinOp:
		if x.Op != token.EQL && x.Op != token.NEQ {
			return false
		}
		if (x.Op == token.EQL) != pol {
			return false
		}
		// Compare(a, b) == 0
		for _, side := range [][2]ssa.Value{{x.X, x.Y}, {x.Y, x.X}} {
			if k, ok := kit.ConstInt(side[1]); ok && k == 0 {
				if c, ok := side[0].(*ssa.Call); ok && kit.CalleeOf(c).Name == "Compare" {
					return pair(c22Operands(c))
				}
			}
		}
		return pair([]ssa.Value{x.X, x.Y})
	case *ssa.Call:
		if !pol {
			return false
		}
		cal := kit.CalleeOf(x)
		if cal.Static != nil && cal.Static.Blocks != nil && kit.IsRepoPkg(cal.Pkg) {
			if depth >= c22MaxDepth {
				return false
			}
			b2 := map[*ssa.Parameter]c22Orig{}
			for i, prm := range cal.Static.Params {
				if i < len(x.Call.Args) {
					b2[prm] = org(x.Call.Args[i])
				}
			}
			return cx.trueOnlyOnMatch(cal.Static, b2, depth+1)
		}
		if cal.Name == "Equal" {
			return pair(c22Operands(x))
		}
	}
	return false
}

func c22Operands(c *ssa.Call) []ssa.Value {
	var ops []ssa.Value
	if c.Call.IsInvoke() {
		ops = append(ops, c.Call.Value)
	}
	return append(ops, c.Call.Args...)
}

// trueOnlyOnMatch: the bool function returns true only on paths on which a match holds.
func (cx *c22cx) trueOnlyOnMatch(fn *ssa.Function, bind map[*ssa.Parameter]c22Orig, depth int) bool {
	if fn.Signature.Results().Len() != 1 {
		return false
	}
	if b, ok := fn.Signature.Results().At(0).Type().Underlying().(*types.Basic); !ok || b.Kind() != types.Bool {
		return false
	}
	leaves := kit.ResultLeaves(fn, 0)
	if len(leaves) == 0 {
		return false
	}
	for _, l := range leaves {
		v, neg := kit.StripNot(l.Val)
		guarded := false
		for _, g := range l.Guards {
			if cx.match(g.Cond, g.Polarity, bind, depth) {
				guarded = true
				break
			}
		}
		if guarded {
			continue
		}
		if c, ok := kit.ConstBool(v); ok {
			if c != neg { // returns true here
				return false
			}
			continue
		}
		if !cx.match(v, !neg, bind, depth) {
			return false
		}
	}
	return true
}

// verifiedEdges: the CFG edges of fn taken exactly when a source/owner match holds.
func (cx *c22cx) verifiedEdges(fn *ssa.Function) map[kit.Edge]bool {
	return cx.verifiedEdgesBind(fn, nil)
}

// verifiedEdgesBind is verifiedEdges for a helper whose parameters carry the given origins (the
// datagram source handed in by the reading function).
func (cx *c22cx) verifiedEdgesBind(fn *ssa.Function, bind map[*ssa.Parameter]c22Orig) map[kit.Edge]bool {
	out := map[kit.Edge]bool{}
	for _, b := range fn.Blocks {
		if len(b.Instrs) == 0 || len(b.Succs) != 2 {
			continue
		}
		ifi, ok := b.Instrs[len(b.Instrs)-1].(*ssa.If)
		if !ok {
			continue
		}
		base, neg := kit.StripNot(ifi.Cond)
		for _, raw := range []bool{true, false} {
			if cx.match(base, raw != neg, bind, 0) {
				if raw {
					out[kit.Edge{From: b, To: b.Succs[0]}] = true
				} else {
					out[kit.Edge{From: b, To: b.Succs[1]}] = true
				}
			}
		}
	}
	return out
}

// sourceBind: the parameters of callee that receive a pure datagram source at call site c
// (evaluated in the caller, whose own parameters carry callerBind).
func (cx *c22cx) sourceBind(c ssa.CallInstruction, callee *ssa.Function, callerBind map[*ssa.Parameter]c22Orig) map[*ssa.Parameter]c22Orig {
	bind := map[*ssa.Parameter]c22Orig{}
	args := c.Common().Args
	for i, prm := range callee.Params {
		if i < len(args) {
			if o := cx.origin(args[i], callerBind, 0, map[ssa.Value]bool{}); o.pureSource() {
				bind[prm] = o
			}
		}
	}
	return bind
}

// helperVerifies: in helper fn, entered with the datagram source in the bound parameters, every
// instruction selected by isSink (relay invokes, stores of the recorded client, calls of further
// relaying helpers) is reached only across a source==owner edge taken inside the helper.
func (cx *c22cx) helperVerifies(fn *ssa.Function, bind map[*ssa.Parameter]c22Orig, sinks []ssa.Instruction, depth int) bool {
	if len(bind) == 0 || len(fn.Blocks) == 0 || len(fn.Blocks[0].Instrs) == 0 || depth > 3 {
		return false
	}
	edges := cx.verifiedEdgesBind(fn, bind)
	entry := []ssa.Instruction{fn.Blocks[0].Instrs[0]}
	for _, sk := range sinks {
		if sk == entry[0] || c22ReachableUnverified(entry, sk, edges) {
			// a call of a further helper may verify inside
			if c, ok := sk.(ssa.CallInstruction); ok {
				if g := c.Common().StaticCallee(); g != nil && g.Blocks != nil && kit.IsRepoPkg(kit.FuncPkgPath(g)) {
					if inner := cx.relaySinks(g); len(inner) > 0 && cx.helperVerifies(g, cx.sourceBind(c, g, bind), inner, depth+1) {
						continue
					}
				}
			}
			return false
		}
	}
	return true
}

// relaySinks: the relay invokes of fn and its calls of functions that (transitively) relay.
func (cx *c22cx) relaySinks(fn *ssa.Function) []ssa.Instruction {
	var out []ssa.Instruction
	for _, f := range kit.WithClosures(fn) {
		for _, c := range kit.Calls(f) {
			cal := kit.CalleeOf(c)
			if cal.Iface && cal.Name == "RelayUDPDatagram" && cal.Pkg == kit.PkgPath("internal/socks5") {
				out = append(out, c22Lift(c))
			} else if cal.Static != nil && cx.relayingFns[kit.TopLevel(cal.Static)] {
				out = append(out, c22Lift(c))
			}
		}
	}
	return out
}

// reachableUnverified: instruction target can execute after a datagram read of fn on a path that
// crosses no verified edge.
func c22ReachableUnverified(reads []ssa.Instruction, target ssa.Instruction, verified map[kit.Edge]bool) bool {
	for _, rd := range reads {
		if rd.Block() == target.Block() && kit.InstrIndex(rd) < kit.InstrIndex(target) {
			return true
		}
		seen := map[*ssa.BasicBlock]bool{}
		var work []*ssa.BasicBlock
		for _, s := range rd.Block().Succs {
			if !verified[kit.Edge{From: rd.Block(), To: s}] {
				work = append(work, s)
			}
		}
		for len(work) > 0 {
			b := work[len(work)-1]
			work = work[:len(work)-1]
			if seen[b] {
				continue
			}
			seen[b] = true
			if b == target.Block() {
				return true
			}
			for _, s := range b.Succs {
				if !verified[kit.Edge{From: b, To: s}] {
					work = append(work, s)
				}
			}
		}
	}
	return false
}

// c22SharedAcrossReads: the pointer value v can be an object that was allocated before (not
// after) the datagram read, i.e. one object reused for all datagrams. Returns that allocation.
func c22SharedAcrossReads(v ssa.Value, reads []ssa.Instruction) ssa.Instruction {
	for _, leaf := range kit.PhiLeaves(v) {
		var al ssa.Instruction
		switch x := leaf.(type) {
		case *ssa.Alloc:
			al = x
		case *ssa.MakeSlice:
			al = x
		default:
			continue
		}
		fresh := false
		for _, rd := range reads {
			if rd.Parent() == al.Parent() && kit.Precedes(rd, al) {
				fresh = true
			}
		}
		if !fresh {
			return al
		}
	}
	return nil
}

// c22Lift maps an instruction inside a closure to the instruction of the enclosing named
// function that creates the closure.
func c22Lift(in ssa.Instruction) ssa.Instruction {
	for in.Parent() != nil && in.Parent().Parent() != nil {
		fn := in.Parent()
		var mk ssa.Instruction
		kit.Instrs(fn.Parent(), func(x ssa.Instruction) {
			if mc, ok := x.(*ssa.MakeClosure); ok && mc.Fn == fn && mk == nil {
				mk = mc
			}
		})
		if mk == nil {
			return in
		}
		in = mk
	}
	return in
}

func runC22(p *kit.Program, r *kit.Report) {
	r.Rule("C22.R1", "every path from a datagram read on the association socket to a relay into the mesh crosses an edge on which the datagram's source address equals an owner identity (request-named address, recorded client or control-connection peer only)")
	r.Rule("C22.R2", "UDPAssociation.ActualClientAddr is stored only with a datagram source address, on paths that crossed such an edge (record after verification)")
	r.Rule("C22.R3", "datagrams written to the association socket are addressed to ActualClientAddr only")
	r.Rule("C22.R4", "bytes of a receive buffer that is reused for the next datagram are not handed to a goroutine, a channel or shared state without a copy (the next read, which runs before the sender check, would overwrite what is being relayed)")
	cx := &c22cx{p: p}
	cx.fExpected = p.Field("internal/socks5", "UDPAssociation", "ExpectedClientAddr")
	cx.fActual = p.Field("internal/socks5", "UDPAssociation", "ActualClientAddr")
	cx.fTCP = p.Field("internal/socks5", "UDPAssociation", "TCPConn")
	cx.fUDP = p.Field("internal/socks5", "UDPAssociation", "UDPConn")
	if !r.Require(cx.fExpected != nil && cx.fActual != nil && cx.fTCP != nil && cx.fUDP != nil,
		"anchor-unresolved: fields ExpectedClientAddr/ActualClientAddr/TCPConn/UDPConn of socks5.UDPAssociation") {
		return
	}
	isRelay := func(c ssa.CallInstruction) bool {
		cal := kit.CalleeOf(c)
		return cal.Iface && cal.Name == "RelayUDPDatagram" && cal.Pkg == kit.PkgPath("internal/socks5")
	}

	// functions that read datagrams from an association socket
	reads := map[*ssa.Function][]ssa.Instruction{}
	for _, fn := range p.RepoFuncs() {
		for _, c := range kit.Calls(fn) {
			if c22ReadAddrResult(c) < 0 {
				continue
			}
			if f, _ := kit.LoadedField(kit.Receiver(c)); f != cx.fUDP {
				continue
			}
			top := kit.TopLevel(fn)
			reads[top] = append(reads[top], c22Lift(c))
		}
	}
	r.Count("association_socket_readers", len(reads))
	if !r.Require(len(reads) >= 1, "floor: no function reads datagrams from UDPAssociation.UDPConn") {
		return
	}
	verified := map[*ssa.Function]map[kit.Edge]bool{}
	nVerified := 0
	for fn := range reads {
		verified[fn] = cx.verifiedEdges(fn)
		nVerified += len(verified[fn])
	}
	r.Count("verified_source_edges", nVerified)

	// ---- R1: relay sites
	// relaying functions: contain a relay invoke directly or call (statically) a relaying function
	type site struct {
		in   ssa.Instruction // lifted to the named function
		what string
	}
	relaying := map[*ssa.Function]bool{}
	sites := map[*ssa.Function][]site{}
	nDirect := 0
	for _, fn := range p.RepoFuncs() {
		for _, c := range kit.Calls(fn) {
			if isRelay(c) {
				nDirect++
				top := kit.TopLevel(fn)
				relaying[top] = true
				sites[top] = append(sites[top], site{c22Lift(c), "RelayUDPDatagram"})
			}
		}
	}
	r.Count("relay_call_sites", nDirect)
	if !r.Require(nDirect >= 1, "floor: no call of UDPAssociationHandler.RelayUDPDatagram found") {
		return
	}
	for changed := true; changed; {
		changed = false
		for fn := range relaying {
			if _, isReader := reads[fn]; isReader {
				continue // checked in place; callers need not verify again
			}
			for _, c := range p.StaticCallers(fn) {
				top := kit.TopLevel(c.Parent())
				lifted := c22Lift(c)
				dup := false
				for _, s := range sites[top] {
					if s.in == lifted {
						dup = true
					}
				}
				if !dup {
					sites[top] = append(sites[top], site{lifted, "call of relaying helper " + kit.FuncName(fn)})
					changed = true
				}
				if !relaying[top] {
					relaying[top] = true
					changed = true
				}
			}
		}
	}
	cx.relayingFns = relaying
	for _, fn := range p.RepoFuncs() {
		ss := sites[fn]
		if len(ss) == 0 {
			continue
		}
		rd, isReader := reads[fn]
		for i, s := range ss {
			key := fmt.Sprintf("%s relay #%d", kit.FuncName(fn), i+1)
			pos := p.Pos(s.in.Pos())
			if !isReader {
				// a relaying helper: its callers are the sites that get checked. Only an entry
				// that nobody calls and that reads nothing is left undecided here: it relays
				// caller-supplied data, which is outside this property.
				r.Infof("C22.R1", key, pos, "%s in a function that reads no datagram: checked at its %d static call site(s)", s.what, len(p.StaticCallers(fn)))
				continue
			}
			bad := c22ReachableUnverified(rd, s.in, verified[fn])
			if bad {
				// the reading function hands the datagram and its source to a helper that performs
				// the source check itself
				if c, ok := s.in.(ssa.CallInstruction); ok {
					if g := c.Common().StaticCallee(); g != nil && g.Blocks != nil && relaying[kit.TopLevel(g)] {
						if cx.helperVerifies(g, cx.sourceBind(c, g, nil), cx.relaySinks(g), 0) {
							r.OK("C22.R1", key, pos, "the helper %s compares the source it is handed with the owner before every relay", kit.FuncName(g))
							continue
						}
					}
				}
			}
			r.Decide(!bad, "C22.R1", key, pos,
				"every path from the datagram read to this "+s.what+" crosses a source==owner edge",
				"a datagram can reach this "+s.what+" without its source address having been compared equal to the association's owner (request-named address, recorded client or control-connection peer): any host that can reach the relay port injects traffic into the mesh")
		}
	}

	// ---- R2: stores to ActualClientAddr
	stores := p.FieldAccessesOfKind(cx.fActual, kit.FieldStore, kit.FieldAddrUse)
	r.Count("actual_client_addr_writers", len(stores))
	r.Require(len(stores) >= 1, "floor: no store to UDPAssociation.ActualClientAddr found")
	ord := map[string]int{}
	for _, acc := range stores {
		top := kit.TopLevel(acc.Fn)
		ord[kit.FuncName(top)]++
		key := fmt.Sprintf("%s store ActualClientAddr #%d", kit.FuncName(top), ord[kit.FuncName(top)])
		pos := p.Pos(acc.Instr.Pos())
		if acc.Kind == kit.FieldAddrUse {
			r.Violation("C22.R2", key, pos, "the address of ActualClientAddr escapes: the reply target can be written without a source check")
			continue
		}
		if kit.IsNilConst(acc.Val) {
			r.OK("C22.R2", key, pos, "reset to nil")
			continue
		}
		in := c22Lift(acc.Instr)
		if rd, isReader := reads[top]; isReader && acc.Fn == top {
			o := cx.origin(acc.Val, nil, 0, map[ssa.Value]bool{})
			if !o.pureSource() {
				r.Violation("C22.R2", key, pos, "the recorded client address has origin %s, not the source of a received datagram: replies can be directed to an address that never proved to be the client", o)
				continue
			}
			if shared := c22SharedAcrossReads(acc.Val, rd); shared != nil {
				r.Violation("C22.R2", key, pos, "the recorded client address points to an object allocated at %s, before the datagram was read: the same object is refilled for every later datagram, so after a stranger's (rejected) datagram the recorded reply target is the stranger's address", p.Pos(shared.Pos()))
				continue
			}
			bad := c22ReachableUnverified(rd, in, verified[top])
			r.Decide(!bad, "C22.R2", key, pos,
				"the source address is recorded only after it compared equal to the owner",
				"the sender of a datagram is recorded as the reply target before/without the source check: a stranger's first datagram makes every reply go to the stranger")
			continue
		}
		// setter form: the stored value must be a parameter, and every call site must pass a verified source
		prm, isParam := acc.Val.(*ssa.Parameter)
		callers := p.StaticCallers(top)
		if !isParam || acc.Fn != top {
			r.Violation("C22.R2", key, pos, "ActualClientAddr is stored outside a datagram-reading function from a value that is not a verified datagram source")
			continue
		}
		pi := -1
		for i, q := range top.Params {
			if q == prm {
				pi = i
			}
		}
		okAll := true
		why := ""
		for _, c := range callers {
			ctop := kit.TopLevel(c.Parent())
			rd, isReader := reads[ctop]
			args := c.Common().Args
			if !isReader || pi < 0 || pi >= len(args) || c.Parent() != ctop {
				okAll, why = false, "called from "+kit.FuncName(c.Parent())+", which reads no datagram"
				break
			}
			if o := cx.origin(args[pi], nil, 0, map[ssa.Value]bool{}); !o.pureSource() {
				okAll, why = false, "called from "+kit.FuncName(ctop)+" with a value of origin "+o.String()
				break
			}
			if c22ReachableUnverified(rd, c, verified[ctop]) {
				// the helper may perform the source check itself before recording
				if !cx.helperVerifies(top, cx.sourceBind(c, top, nil), []ssa.Instruction{acc.Instr}, 0) {
					okAll, why = false, "called from "+kit.FuncName(ctop)+" before/without the source check"
					break
				}
			}
		}
		r.Decide(okAll, "C22.R2", key, pos,
			fmt.Sprintf("setter: all %d call site(s) pass a verified datagram source", len(callers)),
			"the reply target is set through a setter "+why+": replies can go to an address that never proved to be the client")
	}

	// ---- R2b: the recorded address must not be rewritten in place (through the stored pointer)
	nInPlace := 0
	for _, fn := range p.RepoFuncs() {
		kit.Instrs(fn, func(in ssa.Instruction) {
			st, ok := in.(*ssa.Store)
			if !ok {
				return
			}
			var ptr ssa.Value
			switch a := st.Addr.(type) {
			case *ssa.FieldAddr:
				ptr = a.X
			case *ssa.IndexAddr:
				// element of the recorded IP slice: base is a load of <recorded>.IP
				if f, b := kit.LoadedField(a.X); f != nil && c22IsNetStructField(f) {
					ptr = b
				}
			default:
				ptr = st.Addr
			}
			if f, _ := kit.LoadedField(ptr); f != cx.fActual || f == nil {
				return
			}
			nInPlace++
			top := kit.TopLevel(fn)
			key := fmt.Sprintf("%s rewrites the recorded client address in place #%d", kit.FuncName(top), nInPlace)
			pos := p.Pos(st.Pos())
			rd, isReader := reads[top]
			o := cx.origin(st.Val, nil, 0, map[ssa.Value]bool{})
			switch {
			case !isReader || fn != top:
				r.Violation("C22.R2", key, pos, "the address replies are sent to is modified outside the verified receive path")
			case !o.pureSource():
				r.Violation("C22.R2", key, pos, "the recorded client address is overwritten with a value of origin %s: replies can be directed to an address that never proved to be the client", o)
			default:
				bad := c22ReachableUnverified(rd, st, verified[top])
				r.Decide(!bad, "C22.R2", key, pos, "updated only from a verified datagram source",
					"the recorded reply target is overwritten from a datagram before/without the source check")
			}
		})
	}
	r.Count("recorded_address_in_place_writes", nInPlace)

	// ---- R1b: owner identities are not learned from datagrams
	for i, acc := range p.FieldAccessesOfKind(cx.fExpected, kit.FieldStore, kit.FieldAddrUse) {
		top := kit.TopLevel(acc.Fn)
		key := fmt.Sprintf("%s store ExpectedClientAddr #%d", kit.FuncName(top), i+1)
		pos := p.Pos(acc.Instr.Pos())
		if acc.Kind == kit.FieldAddrUse {
			r.Violation("C22.R1", key, pos, "the address of ExpectedClientAddr escapes: the owner identity the source check relies on can be rewritten anywhere")
			continue
		}
		var os []c22Orig
		if prm, isParam := acc.Val.(*ssa.Parameter); isParam && acc.Fn == top {
			pi := -1
			for k, q := range top.Params {
				if q == prm {
					pi = k
				}
			}
			for _, c := range p.StaticCallers(top) {
				if pi >= 0 && pi < len(c.Common().Args) {
					os = append(os, cx.origin(c.Common().Args[pi], nil, 0, map[ssa.Value]bool{}))
				}
			}
		} else {
			os = append(os, cx.origin(acc.Val, nil, 0, map[ssa.Value]bool{}))
		}
		bad := ""
		for _, o := range os {
			if o.source || o.actual {
				bad = o.String()
			}
		}
		r.Decide(bad == "", "C22.R1", key, pos,
			"the expected client address comes from the request, not from a received datagram",
			"the owner identity ExpectedClientAddr is set from a value of origin "+bad+": whoever sends the first datagram defines who the owner is, and the source check then admits that sender")
	}

	// ---- R4: lifetime of the receive buffer
	cx.ruleBufferLifetime(r, reads)

	// ---- R3: writes on the association socket
	nWrites := 0
	for _, acc := range p.FieldAccessesOfKind(cx.fUDP, kit.FieldLoad) {
		v, ok := acc.Instr.(ssa.Value)
		if !ok || v.Referrers() == nil {
			continue
		}
		for _, ref := range *v.Referrers() {
			c, ok := ref.(ssa.CallInstruction)
			if !ok || kit.Receiver(c) != v {
				continue
			}
			cal := kit.CalleeOf(c)
			if cal.Pkg != "net" || !strings.HasPrefix(cal.Name, "Write") {
				continue
			}
			sig := c.Common().Signature()
			ai := -1
			for i := 0; i < sig.Params().Len(); i++ {
				if c22IsAddrType(sig.Params().At(i).Type()) {
					ai = i
				}
			}
			if ai < 0 {
				continue // Write on an unconnected socket has no destination; nothing is sent
			}
			nWrites++
			top := kit.TopLevel(acc.Fn)
			key := fmt.Sprintf("%s %s #%d", kit.FuncName(top), cal.Name, nWrites)
			o := cx.origin(kit.Arg(c, ai), nil, 0, map[ssa.Value]bool{})
			ok2 := o.actual && !o.expected && !o.ctrl && !o.source && !o.other
			r.Decide(ok2, "C22.R3", key, p.Pos(c.Pos()),
				"destination is the recorded (verified) client address",
				"the datagram's destination has origin "+o.String()+" instead of ActualClientAddr: replies of the association can be sent to a host other than its client")
		}
	}
	r.Count("association_socket_writes", nWrites)
	r.Require(nWrites >= 1, "floor: no addressed write on UDPAssociation.UDPConn found")
}

// ---------------------------------------------------------------------------------------------
// R4: a reused receive buffer must not stay live across the next read

func c22CanAlias(t types.Type, depth int) bool {
	if depth > 3 {
		return false
	}
	switch u := t.Underlying().(type) {
	case *types.Slice, *types.Pointer, *types.Interface, *types.Map, *types.Chan, *types.Signature:
		return true
	case *types.Struct:
		for i := 0; i < u.NumFields(); i++ {
			if c22CanAlias(u.Field(i).Type(), depth+1) {
				return true
			}
		}
	case *types.Array:
		return c22CanAlias(u.Elem(), depth+1)
	case *types.Tuple:
		for i := 0; i < u.Len(); i++ {
			if c22CanAlias(u.At(i).Type(), depth+1) {
				return true
			}
		}
	}
	return false
}

func c22LocalRoot(v ssa.Value) *ssa.Alloc {
	for i := 0; i < 12; i++ {
		switch x := v.(type) {
		case *ssa.Alloc:
			return x
		case *ssa.FieldAddr:
			v = x.X
		case *ssa.IndexAddr:
			v = x.X
		default:
			return nil
		}
	}
	return nil
}

// c22Aliases computes, inside fn, the values that may share memory with root (sub-slices,
// element addresses, results of helpers that return views of their argument, loads from local
// objects such views were stored into). String conversions and append onto another slice copy.
func (cx *c22cx) aliases(fn *ssa.Function, root ssa.Value, depth int) map[ssa.Value]bool {
	A := map[ssa.Value]bool{root: true}
	holds := map[*ssa.Alloc]bool{}
	in := func(v ssa.Value) bool { return v != nil && A[v] }
	for changed := true; changed; {
		changed = false
		mark := func(v ssa.Value) {
			if !A[v] {
				A[v] = true
				changed = true
			}
		}
		for _, f := range kit.WithClosures(fn) {
			kit.Instrs(f, func(i ssa.Instruction) {
				switch x := i.(type) {
				case *ssa.Slice:
					if in(x.X) {
						mark(x)
					}
				case *ssa.ChangeType:
					if in(x.X) {
						mark(x)
					}
				case *ssa.MakeInterface:
					if in(x.X) {
						mark(x)
					}
				case *ssa.ChangeInterface:
					if in(x.X) {
						mark(x)
					}
				case *ssa.TypeAssert:
					if in(x.X) {
						mark(x)
					}
				case *ssa.Phi:
					for _, e := range x.Edges {
						if in(e) {
							mark(x)
						}
					}
				case *ssa.IndexAddr:
					if in(x.X) {
						mark(x)
					}
				case *ssa.FieldAddr:
					if in(x.X) {
						mark(x)
					}
				case *ssa.Extract:
					if in(x.Tuple) && c22CanAlias(x.Type(), 0) {
						mark(x)
					}
				case *ssa.UnOp:
					if x.Op != token.MUL || !c22CanAlias(x.Type(), 0) {
						return
					}
					if in(x.X) {
						mark(x) // load through a pointer into aliased memory / from an object holding a view
					} else if a := c22LocalRoot(x.X); a != nil && holds[a] {
						mark(x)
					}
				case *ssa.Store:
					if in(x.Val) {
						if a := c22LocalRoot(x.Addr); a != nil && !holds[a] {
							holds[a] = true
							changed = true
							mark(a)
						}
					}
				case *ssa.MakeClosure:
					for _, b := range x.Bindings {
						if in(b) {
							mark(x)
						}
					}
				case *ssa.Call:
					if !c22CanAlias(x.Type(), 0) {
						return
					}
					cal := kit.CalleeOf(x)
					if cal.Built == "append" {
						if len(x.Call.Args) > 0 && in(x.Call.Args[0]) {
							mark(x)
						}
						return
					}
					if cal.Built != "" {
						return
					}
					any := false
					for k, a := range x.Call.Args {
						if !in(a) {
							continue
						}
						if cal.Static != nil && cal.Static.Blocks != nil && kit.IsRepoPkg(cal.Pkg) && depth < 2 {
							if k < len(cal.Static.Params) && cx.returnsView(cal.Static, k, depth+1) {
								any = true
							}
						} else if cal.Name != "Clone" && !strings.HasPrefix(cal.Name, "Read") && !strings.HasPrefix(cal.Name, "Write") && cal.Pkg != "fmt" && cal.Pkg != "strconv" && cal.Pkg != "errors" && cal.Pkg != "encoding/hex" && cal.Pkg != "encoding/binary" {
							any = true // unknown library function: may return a view of its argument
						}
					}
					if x.Call.IsInvoke() && in(x.Call.Value) {
						any = true
					}
					if any {
						mark(x)
					}
				}
			})
		}
	}
	return A
}

// returnsView: a result of fn may share memory with its parameter #k.
func (cx *c22cx) returnsView(fn *ssa.Function, k, depth int) bool {
	A := cx.aliases(fn, fn.Params[k], depth)
	for _, ret := range kit.Returns(fn) {
		for i := range ret.Results {
			if A[kit.ReturnResult(ret, i)] {
				return true
			}
		}
	}
	return false
}

func (cx *c22cx) ruleBufferLifetime(r *kit.Report, reads map[*ssa.Function][]ssa.Instruction) {
	p := cx.p
	n, nShared := 0, 0
	var tops []*ssa.Function
	for fn := range reads {
		tops = append(tops, fn)
	}
	sort.Slice(tops, func(i, j int) bool { return kit.FuncName(tops[i]) < kit.FuncName(tops[j]) })
	for _, top := range tops {
		for _, rd := range reads[top] {
			c, ok := rd.(ssa.CallInstruction)
			if !ok {
				continue
			}
			buf := kit.Arg(c, 0)
			if buf == nil {
				continue
			}
			root := buf
			for {
				if sl, ok := root.(*ssa.Slice); ok {
					root = sl.X
					continue
				}
				if ct, ok := root.(*ssa.ChangeType); ok {
					root = ct.X
					continue
				}
				break
			}
			n++
			// one buffer for all datagrams: its allocation is not re-executed after a read
			ri, isInstr := root.(ssa.Instruction)
			if isInstr && ri.Parent() == rd.Parent() && kit.CanReach(rd, ri) {
				r.OK("C22.R4", fmt.Sprintf("%s receive buffer #%d", kit.FuncName(top), n), p.Pos(rd.Pos()), "a fresh buffer is allocated for every datagram")
				continue
			}
			nShared++
			A := cx.aliases(top, root, 0)
			bad, badPos := "", p.Pos(rd.Pos())
			isAlias := func(v ssa.Value) bool { return v != nil && A[v] }
			for _, f := range kit.WithClosures(top) {
				kit.Instrs(f, func(in ssa.Instruction) {
					if bad != "" {
						return
					}
					switch x := in.(type) {
					case *ssa.Go:
						hit := false
						for _, a := range x.Call.Args {
							if isAlias(a) {
								hit = true
							}
						}
						if x.Call.IsInvoke() && isAlias(x.Call.Value) {
							hit = true
						}
						if mc, ok := x.Call.Value.(*ssa.MakeClosure); ok {
							for _, b := range mc.Bindings {
								if isAlias(b) {
									hit = true
								}
							}
						}
						if hit {
							bad, badPos = "a goroutine is started with a view of the receive buffer", p.Pos(x.Pos())
						}
					case *ssa.Send:
						if isAlias(x.X) {
							bad, badPos = "a view of the receive buffer is sent on a channel", p.Pos(x.Pos())
						}
					case *ssa.Store:
						if isAlias(x.Val) && c22LocalRoot(x.Addr) == nil {
							if _, isGlobalOrField := x.Addr.(*ssa.Alloc); !isGlobalOrField {
								bad, badPos = "a view of the receive buffer is stored into state that outlives the iteration", p.Pos(x.Pos())
							}
						}
					case *ssa.MapUpdate:
						if isAlias(x.Value) {
							if _, local := x.Map.(*ssa.MakeMap); !local {
								bad, badPos = "a view of the receive buffer is stored into a shared map", p.Pos(x.Pos())
							}
						}
					}
				})
			}
			r.Decide(bad == "", "C22.R4", fmt.Sprintf("%s receive buffer #%d", kit.FuncName(top), n), badPos,
				"the reused receive buffer is only used synchronously within the iteration that filled it",
				bad+" while the same buffer is refilled by the next read: that read happens before the sender check, so a stranger's datagram overwrites the address/payload still being relayed for the owner and is forwarded under the owner's association (copy the bytes, or allocate a buffer per datagram)")
		}
	}
	r.Count("receive_buffers", n)
	r.Count("receive_buffers_reused", nShared)
}
