package rules

import (
	"fmt"
	"go/token"
	"go/types"
	"sort"
	"strings"

	"golang.org/x/tools/go/ssa"

	"mmverify/kit"
)

func init() {
	register(&Check{
		ID: "C11", Level: "other", Patterns: []string{"./internal/flood"},
		Technique: "dominating guards, lock regions and value provenance over go/ssa",
		Explain: "Decides per-agent necessary conditions of flood termination for every Flooder entry point that forwards a received frame: " +
			"the seen-cache test and insertion form one write-locked region keyed by the (origin, number) that is forwarded, every route store, forward and 'new' result is dominated by the not-seen edge and by the local id not being in the received seen-by list, " +
			"every flooded message carries the received seen-by list plus the local id, and the forwarding loop sends once per peer and skips the sender and every peer already in the list. " +
			"The graph-quantified message bound, duplicate suppression for sibling copies after cache expiry, are not decided here; the self-in-path rejection of the four AddRoute methods is (R5): every table write, including the replacement of an existing entry, is dominated by the path scan.",
		Run: runC11,
		SelfTests: []SelfTest{
			{Name: "seen-cache insertion in a second critical section", ExpectRule: "C11.R1", ExpectKey: "HandleRouteWithdraw", Edits: []Edit{
				{File: "internal/flood/flood.go", Old: "\tif _, ok := f.seenCache[key]; ok {\n\t\tf.mu.Unlock()\n\t\treturn false\n\t}\n\n\tf.seenCache[key]", New: "\tif _, ok := f.seenCache[key]; ok {\n\t\tf.mu.Unlock()\n\t\treturn false\n\t}\n\tf.mu.Unlock()\n\tf.mu.Lock()\n\n\tf.seenCache[key]"},
			}},
			{Name: "seen cache probed and filled under a read lock", ExpectRule: "C11.R1", ExpectKey: "HandleRouteWithdraw dedup atomic", Edits: []Edit{
				{File: "internal/flood/flood.go", Old: "\t// Check if we've seen this\n\tf.mu.Lock()\n\tif _, ok := f.seenCache[key]; ok {\n\t\tf.mu.Unlock()\n", New: "\t// Check if we've seen this\n\tf.mu.RLock()\n\tif _, ok := f.seenCache[key]; ok {\n\t\tf.mu.RUnlock()\n"},
				{File: "internal/flood/flood.go", Old: "\t\tSeenFrom: fromPeer,\n\t}\n\tf.mu.Unlock()\n\n\t// Check loop detection", New: "\t\tSeenFrom: fromPeer,\n\t}\n\tf.mu.RUnlock()\n\n\t// Check loop detection"},
			}},
			{Name: "node info marked seen but duplicates still processed", ExpectRule: "C11.R1", ExpectKey: "HandleNodeInfoAdvertise", Edits: []Edit{
				{File: "internal/flood/flood.go", Old: "\t\tf.nodeInfoMu.Unlock()\n\t\treturn false\n\t}\n\n\t// Mark as seen\n\tf.nodeInfoSeenCache[key]", New: "\t\tf.nodeInfoMu.Unlock()\n\t}\n\n\t// Mark as seen\n\tf.nodeInfoSeenCache[key]"},
			}},
			{Name: "dedup key uses the sending peer instead of the origin", ExpectRule: "C11.R1", ExpectKey: "HandleRouteAdvertise dedup key", Edits: []Edit{
				{File: "internal/flood/flood.go", Old: "\t\tOriginAgent: originAgent,\n\t\tSequence:    sequence,\n\t}\n\n\t// Check if we've already seen this and mark as seen atomically\n\tf.mu.Lock()\n", New: "\t\tOriginAgent: fromPeer,\n\t\tSequence:    sequence,\n\t}\n\n\t// Check if we've already seen this and mark as seen atomically\n\tf.mu.Lock()\n"},
			}},
			{Name: "sleep command result inverted", ExpectRule: "C11.R1", ExpectKey: "HandleSleepCommand", Edits: []Edit{
				{File: "internal/flood/flood.go", Old: "\t// (origin, id) and fill the cache with unauthenticated entries.\n\tif !f.markSleepCmdSeen(", New: "\t// (origin, id) and fill the cache with unauthenticated entries.\n\tif f.markSleepCmdSeen("},
			}},
			{Name: "self-in-seen-by test dropped from withdraw", ExpectRule: "C11.R2", ExpectKey: "HandleRouteWithdraw", Edits: []Edit{
				{File: "internal/flood/flood.go", Old: "\t// Check loop detection\n\tif containsAgent(seenBy, f.localID) {\n\t\treturn false\n\t}\n", New: ""},
			}},
			{Name: "self-in-seen-by test compares the sender", ExpectRule: "C11.R2", ExpectKey: "HandleWakeCommand", Edits: []Edit{
				{File: "internal/flood/flood.go", Old: "\tif containsAgent(cmd.SeenBy, f.localID) {\n\t\treturn false\n\t}\n\n\t// Verify signature if signing key is configured\n\tif err := f.verifyWakeCommand(cmd)", New: "\tif containsAgent(cmd.SeenBy, fromPeer) {\n\t\treturn false\n\t}\n\n\t// Verify signature if signing key is configured\n\tif err := f.verifyWakeCommand(cmd)"},
			}},
			{Name: "membership helper never matches", ExpectRule: "C11.R2", Edits: []Edit{
				{File: "internal/flood/flood.go", Old: "\tfor _, v := range list {\n\t\tif v == id {\n\t\t\treturn true\n\t\t}\n\t}\n\treturn false", New: "\tfor _, v := range list {\n\t\tif v == id {\n\t\t\treturn false\n\t\t}\n\t}\n\treturn false"},
			}},
			{Name: "seen-by forwarded without the local id", ExpectRule: "C11.R3", ExpectKey: "floodNodeInfoEncrypted", Edits: []Edit{
				{File: "internal/flood/flood.go", Old: "\tnewSeenBy := append(seenBy, f.localID)\n\tf.floodNodeInfoEncrypted(", New: "\tnewSeenBy := seenBy\n\tf.floodNodeInfoEncrypted("},
			}},
			{Name: "seen-by restarted at every hop", ExpectRule: "C11.R3", ExpectKey: "floodWithdrawal", Edits: []Edit{
				{File: "internal/flood/flood.go", Old: "\tnewSeenBy := append(seenBy, f.localID)\n\tf.floodWithdrawal(", New: "\tnewSeenBy := []identity.AgentID{f.localID}\n\tf.floodWithdrawal("},
			}},
			{Name: "seen-by skip removed from the forwarding loop", ExpectRule: "C11.R4", Edits: []Edit{
				{File: "internal/flood/flood.go", Old: "\t\tif peerID == fromPeer || containsAgent(seenBy, peerID) {", New: "\t\tif peerID == fromPeer {"},
			}},
			{Name: "sender skip removed from the forwarding loop", ExpectRule: "C11.R4", Edits: []Edit{
				{File: "internal/flood/flood.go", Old: "\t\tif peerID == fromPeer || containsAgent(seenBy, peerID) {", New: "\t\tif containsAgent(seenBy, peerID) {"},
			}},
			{Name: "retry sends a second copy to the same peer", ExpectRule: "C11.R4", Edits: []Edit{
				{File: "internal/flood/flood.go", Old: "\t\tif err := f.sender.SendToPeer(peerID, frame); err != nil {\n\t\t\tf.logger.Debug(logMsg,", New: "\t\tif err := f.sender.SendToPeer(peerID, frame); err != nil {\n\t\t\t_ = f.sender.SendToPeer(peerID, frame)\n\t\t\tf.logger.Debug(logMsg,"},
			}},
			{Name: "self-in-path scan only before inserting a new CIDR route (seed C11-a)", ExpectRule: "C11.R5", ExpectKey: "(*routing.Table).AddRoute", Edits: []Edit{
				{File: "internal/routing/table.go", Old: "\t// Check for routing loops (is our ID in the path?)\n\tfor _, id := range route.Path {\n\t\tif id == t.localID {\n\t\t\treturn false // Loop detected\n\t\t}\n\t}\n\n\tkey := route.Network.String()", New: "\tkey := route.Network.String()"},
				{File: "internal/routing/table.go", Old: "\t// New route from this origin\n\tcloned := route.Clone()", New: "\tfor _, id := range route.Path {\n\t\tif id == t.localID {\n\t\t\treturn false\n\t\t}\n\t}\n\tcloned := route.Clone()"},
			}},
			{Name: "self-in-path scan compares the next hop", ExpectRule: "C11.R5", ExpectKey: "(*routing.ForwardTable).AddRoute", Edits: []Edit{
				{File: "internal/routing/forward.go", Old: "\tfor _, id := range route.Path {\n\t\tif id == t.localID {", New: "\tfor _, id := range route.Path {\n\t\tif id == route.NextHop {"},
			}},
			{Name: "self-in-path scan skipped for short paths", ExpectRule: "C11.R5", ExpectKey: "(*routing.AgentTable).AddRoute", Edits: []Edit{
				{File: "internal/routing/agent.go", Old: "\t// Check for routing loops (is our ID in the path?)\n\tfor _, id := range route.Path {\n\t\tif id == t.localID {\n\t\t\treturn false // Loop detected\n\t\t}\n\t}\n", New: "\tif len(route.Path) > 2 {\n\t\tfor _, id := range route.Path {\n\t\t\tif id == t.localID {\n\t\t\t\treturn false\n\t\t\t}\n\t\t}\n\t}\n"},
			}},
			{Name: "self-in-path hit only logged", ExpectRule: "C11.R5", ExpectKey: "(*routing.DomainTable).AddRoute", Edits: []Edit{
				{File: "internal/routing/domain.go", Old: "\tfor _, id := range route.Path {\n\t\tif id == t.localID {\n\t\t\treturn false // Loop detected\n\t\t}\n\t}\n", New: "\tlooped := false\n\tfor _, id := range route.Path {\n\t\tif id == t.localID {\n\t\t\tlooped = true\n\t\t}\n\t}\n\t_ = looped\n"},
			}},
			{Name: "rewrite: self-in-path scan under the lock, swapped operands", Edits: []Edit{
				{File: "internal/routing/forward.go", Old: "\t// Check for routing loops (is our ID in the path?)\n\tfor _, id := range route.Path {\n\t\tif id == t.localID {\n\t\t\treturn false // Loop detected\n\t\t}\n\t}\n\n\tt.mu.Lock()\n\tdefer t.mu.Unlock()\n", New: "\tt.mu.Lock()\n\tdefer t.mu.Unlock()\n\n\tfor i := range route.Path {\n\t\tif t.localID != route.Path[i] {\n\t\t\tcontinue\n\t\t}\n\t\treturn false\n\t}\n"},
			}},
			{Name: "rewrite: dedup helper with deferred unlock returning (first sender, size, fresh)", Edits: []Edit{
				{File: "internal/flood/flood.go", Old: "\t// Check if we've seen this\n\tf.mu.Lock()\n\tif _, ok := f.seenCache[key]; ok {\n\t\tf.mu.Unlock()\n\t\treturn false\n\t}\n\n\tf.seenCache[key] = &SeenAdvertisement{\n\t\tKey:      key,\n\t\tSeenAt:   time.Now(),\n\t\tSeenFrom: fromPeer,\n\t}\n\tf.mu.Unlock()\n", New: "\t_, _, fresh := f.recordSighting(key, fromPeer)\n\tif !fresh {\n\t\treturn false\n\t}\n"},
				{File: "internal/flood/flood.go", Old: "// HasSeen checks if an advertisement has been seen.", New: "func (f *Flooder) recordSighting(key AdvertisementKey, fromPeer identity.AgentID) (firstFrom identity.AgentID, size int, fresh bool) {\n\tf.mu.Lock()\n\tdefer f.mu.Unlock()\n\tif prior, dup := f.seenCache[key]; dup {\n\t\treturn prior.SeenFrom, len(f.seenCache), false\n\t}\n\tf.seenCache[key] = &SeenAdvertisement{Key: key, SeenAt: time.Now(), SeenFrom: fromPeer}\n\treturn fromPeer, len(f.seenCache), true\n}\n\n// HasSeen checks if an advertisement has been seen."},
			}},
			{Name: "rewrite: recipients selected by a helper (switch instead of ||), send error test inverted", Edits: []Edit{
				{File: "internal/flood/flood.go", Old: "\tfor _, peerID := range f.sender.GetPeerIDs() {\n\t\tif peerID == fromPeer || containsAgent(seenBy, peerID) {\n\t\t\tcontinue\n\t\t}\n\t\tif err := f.sender.SendToPeer(peerID, frame); err != nil {\n\t\t\tf.logger.Debug(logMsg,\n\t\t\t\tlogging.KeyPeerID, peerID.ShortString(),\n\t\t\t\tlogging.KeyError, err)\n\t\t}\n\t}\n}\n", New: "\tfor _, peerID := range f.floodTargets(fromPeer, seenBy) {\n\t\terr := f.sender.SendToPeer(peerID, frame)\n\t\tif err == nil {\n\t\t\tcontinue\n\t\t}\n\t\tf.logger.Debug(logMsg,\n\t\t\tlogging.KeyPeerID, peerID.ShortString(),\n\t\t\tlogging.KeyError, err)\n\t}\n}\n\nfunc (f *Flooder) floodTargets(fromPeer identity.AgentID, seenBy []identity.AgentID) []identity.AgentID {\n\tconnected := f.sender.GetPeerIDs()\n\ttargets := make([]identity.AgentID, 0, len(connected))\n\tfor _, candidate := range connected {\n\t\tswitch {\n\t\tcase candidate == fromPeer:\n\t\tcase containsAgent(seenBy, candidate):\n\t\tdefault:\n\t\t\ttargets = append(targets, candidate)\n\t\t}\n\t}\n\treturn targets\n}\n"},
			}},
			{Name: "recipients helper forgets the seen-by filter", ExpectRule: "C11.R4", ExpectKey: "skips seen-by members", Edits: []Edit{
				{File: "internal/flood/flood.go", Old: "\tfor _, peerID := range f.sender.GetPeerIDs() {\n\t\tif peerID == fromPeer || containsAgent(seenBy, peerID) {\n\t\t\tcontinue\n\t\t}\n\t\tif err := f.sender.SendToPeer(peerID, frame); err != nil {", New: "\tfor _, peerID := range f.floodTargets(fromPeer, seenBy) {\n\t\tif err := f.sender.SendToPeer(peerID, frame); err != nil {"},
				{File: "internal/flood/flood.go", Old: "// HasSeen checks if an advertisement has been seen.", New: "func (f *Flooder) floodTargets(fromPeer identity.AgentID, seenBy []identity.AgentID) []identity.AgentID {\n\tvar targets []identity.AgentID\n\tfor _, candidate := range f.sender.GetPeerIDs() {\n\t\tif candidate != fromPeer {\n\t\t\ttargets = append(targets, candidate)\n\t\t}\n\t}\n\t_ = seenBy\n\treturn targets\n}\n\n// HasSeen checks if an advertisement has been seen."},
			}},
			{Name: "rewrite: self-in-path scan by slices.Contains, existing entry found by slices.IndexFunc", Edits: []Edit{
				{File: "internal/routing/forward.go", Old: "import (\n\t\"fmt\"\n\t\"sort\"\n", New: "import (\n\t\"fmt\"\n\t\"slices\"\n\t\"sort\"\n"},
				{File: "internal/routing/forward.go", Old: "\t// Check for routing loops (is our ID in the path?)\n\tfor _, id := range route.Path {\n\t\tif id == t.localID {\n\t\t\treturn false // Loop detected\n\t\t}\n\t}\n\n\tt.mu.Lock()\n\tdefer t.mu.Unlock()\n", New: "\tif slices.Contains(route.Path, t.localID) {\n\t\treturn false\n\t}\n\n\tt.mu.Lock()\n\tdefer t.mu.Unlock()\n\tif slices.IndexFunc(t.routes[route.Key], func(held *ForwardRoute) bool { return held.OriginAgent == route.OriginAgent }) < -1 {\n\t\treturn false\n\t}\n"},
			}},
			{Name: "rewrite: sleep command admitted by a shared helper (self test, verification closure, mark), membership helper wraps slices.Contains, probe in its own helper", Edits: []Edit{
				{File: "internal/flood/flood.go", Old: "\tif containsAgent(cmd.SeenBy, f.localID) {\n\t\treturn false\n\t}\n\n\t// Verify signature if signing key is configured\n\tif err := f.verifySleepCommand(cmd); err != nil {\n\t\tf.logger.Warn(\"sleep command rejected\",\n\t\t\t\"origin\", cmd.OriginAgent.ShortString(),\n\t\t\t\"command_id\", cmd.CommandID,\n\t\t\t\"from_peer\", fromPeer.ShortString(),\n\t\t\tlogging.KeyError, err)\n\t\treturn false\n\t}\n\n\t// Only an authenticated command is recorded as seen: marking before\n\t// verification lets any peer pre-empt a genuine command with its\n\t// (origin, id) and fill the cache with unauthenticated entries.\n\tif !f.markSleepCmdSeen(cmd.OriginAgent, cmd.CommandID, fromPeer) {\n\t\treturn false\n\t}\n", New: "\tif !f.admitCommand(fromPeer, cmd.OriginAgent, cmd.CommandID, cmd.SeenBy, func() error { return f.verifySleepCommand(cmd) }) {\n\t\treturn false\n\t}\n"},
				{File: "internal/flood/flood.go", Old: "// HasSeen checks if an advertisement has been seen.", New: "func (f *Flooder) admitCommand(fromPeer, origin identity.AgentID, id uint64, seenBy []identity.AgentID, authenticate func() error) bool {\n\tif containsAgent(seenBy, f.localID) {\n\t\treturn false\n\t}\n\tif err := authenticate(); err != nil {\n\t\tf.logger.Warn(\"command rejected\", logging.KeyError, err)\n\t\treturn false\n\t}\n\treturn f.markSleepCmdSeen(origin, id, fromPeer)\n}\n\n// HasSeen checks if an advertisement has been seen."},
				{File: "internal/flood/flood.go", Old: "\t\"net\"\n\t\"sync\"\n", New: "\t\"net\"\n\t\"slices\"\n\t\"sync\"\n"},
				{File: "internal/flood/flood.go", Old: "\tfor _, v := range list {\n\t\tif v == id {\n\t\t\treturn true\n\t\t}\n\t}\n\treturn false", New: "\treturn slices.Contains(list, id)"},
				{File: "internal/flood/flood.go", Old: "\tif existing, ok := f.sleepCmdSeenCache[key]; ok {\n\t\tif existing.SeenFrom != fromPeer {\n\t\t\texisting.SeenAt = time.Now()\n\t\t}\n\t\treturn false\n\t}\n\n\t// Cache full", New: "\tif f.touchSeenSleepCmd(key, fromPeer) {\n\t\treturn false\n\t}\n\n\t// Cache full"},
				{File: "internal/flood/flood.go", Old: "// HandleSleepCommand processes an incoming SLEEP_COMMAND frame.", New: "func (f *Flooder) touchSeenSleepCmd(key SleepCommandKey, fromPeer identity.AgentID) bool {\n\texisting, ok := f.sleepCmdSeenCache[key]\n\tif !ok {\n\t\treturn false\n\t}\n\tif existing.SeenFrom != fromPeer {\n\t\texisting.SeenAt = time.Now()\n\t}\n\treturn true\n}\n\n// HandleSleepCommand processes an incoming SLEEP_COMMAND frame."},
			}},
			{Name: "shared admission helper forgets the self-in-seen-by test", ExpectRule: "C11.R2", ExpectKey: "HandleSleepCommand", Edits: []Edit{
				{File: "internal/flood/flood.go", Old: "\tif containsAgent(cmd.SeenBy, f.localID) {\n\t\treturn false\n\t}\n\n\t// Verify signature if signing key is configured\n\tif err := f.verifySleepCommand(cmd); err != nil {\n\t\tf.logger.Warn(\"sleep command rejected\",\n\t\t\t\"origin\", cmd.OriginAgent.ShortString(),\n\t\t\t\"command_id\", cmd.CommandID,\n\t\t\t\"from_peer\", fromPeer.ShortString(),\n\t\t\tlogging.KeyError, err)\n\t\treturn false\n\t}\n\n\t// Only an authenticated command is recorded as seen: marking before\n\t// verification lets any peer pre-empt a genuine command with its\n\t// (origin, id) and fill the cache with unauthenticated entries.\n\tif !f.markSleepCmdSeen(cmd.OriginAgent, cmd.CommandID, fromPeer) {\n\t\treturn false\n\t}\n", New: "\tif !f.admitCommand(fromPeer, cmd.OriginAgent, cmd.CommandID, cmd.SeenBy, func() error { return f.verifySleepCommand(cmd) }) {\n\t\treturn false\n\t}\n"},
				{File: "internal/flood/flood.go", Old: "// HasSeen checks if an advertisement has been seen.", New: "func (f *Flooder) admitCommand(fromPeer, origin identity.AgentID, id uint64, seenBy []identity.AgentID, authenticate func() error) bool {\n\tif err := authenticate(); err != nil {\n\t\tf.logger.Warn(\"command rejected\", logging.KeyError, err)\n\t\treturn false\n\t}\n\t_ = seenBy\n\treturn f.markSleepCmdSeen(origin, id, fromPeer)\n}\n\n// HasSeen checks if an advertisement has been seen."},
			}},
			{Name: "probe helper takes its own read lock, insertion under a later write lock", ExpectRule: "C11.R1", ExpectKey: "HandleSleepCommand", Edits: []Edit{
				{File: "internal/flood/flood.go", Old: "\tf.sleepCmdMu.Lock()\n\tdefer f.sleepCmdMu.Unlock()\n\n\tif existing, ok := f.sleepCmdSeenCache[key]; ok {\n\t\tif existing.SeenFrom != fromPeer {\n\t\t\texisting.SeenAt = time.Now()\n\t\t}\n\t\treturn false\n\t}\n", New: "\tif f.seenSleepCmd(key) {\n\t\treturn false\n\t}\n\tf.sleepCmdMu.Lock()\n\tdefer f.sleepCmdMu.Unlock()\n"},
				{File: "internal/flood/flood.go", Old: "// HandleSleepCommand processes an incoming SLEEP_COMMAND frame.", New: "func (f *Flooder) seenSleepCmd(key SleepCommandKey) bool {\n\tf.sleepCmdMu.RLock()\n\tdefer f.sleepCmdMu.RUnlock()\n\t_, ok := f.sleepCmdSeenCache[key]\n\treturn ok\n}\n\n// HandleSleepCommand processes an incoming SLEEP_COMMAND frame."},
			}},
			{Name: "rewrite: self-in-path scan through a table predicate, a route predicate and slices.Index; upsert in a package function", Edits: []Edit{
				{File: "internal/routing/forward.go", Old: "\t// Check for routing loops (is our ID in the path?)\n\tfor _, id := range route.Path {\n\t\tif id == t.localID {\n\t\t\treturn false // Loop detected\n\t\t}\n\t}\n", New: "\tif t.pathHasLoop(route.Path) {\n\t\treturn false\n\t}\n"},
				{File: "internal/routing/forward.go", Old: "// sortRoutes sorts routes for a key by metric (lowest first).\nfunc (t *ForwardTable) sortRoutes(", New: "func (t *ForwardTable) pathHasLoop(path []identity.AgentID) bool {\n\tfor _, hop := range path {\n\t\tif hop == t.localID {\n\t\t\treturn true\n\t\t}\n\t}\n\treturn false\n}\n\n// sortRoutes sorts routes for a key by metric (lowest first).\nfunc (t *ForwardTable) sortRoutes("},
				{File: "internal/routing/agent.go", Old: "\t// Check for routing loops (is our ID in the path?)\n\tfor _, id := range route.Path {\n\t\tif id == t.localID {\n\t\t\treturn false // Loop detected\n\t\t}\n\t}\n", New: "\tif route.traverses(t.localID) {\n\t\treturn false\n\t}\n"},
				{File: "internal/routing/agent.go", Old: "// sortRoutes sorts routes for an agent by metric (lowest first).", New: "func (r *AgentRoute) traverses(agentID identity.AgentID) bool {\n\tfor _, id := range r.Path {\n\t\tif id == agentID {\n\t\t\treturn true\n\t\t}\n\t}\n\treturn false\n}\n\n// sortRoutes sorts routes for an agent by metric (lowest first)."},
				{File: "internal/routing/table.go", Old: "\t// Check for routing loops (is our ID in the path?)\n\tfor _, id := range route.Path {\n\t\tif id == t.localID {\n\t\t\treturn false // Loop detected\n\t\t}\n\t}\n", New: "\tif slices.Index(route.Path, t.localID) != -1 {\n\t\treturn false\n\t}\n"},
				{File: "internal/routing/table.go", Old: "import (\n", New: "import (\n\t\"slices\"\n"},
				{File: "internal/routing/table.go", Old: "\t// New route from this origin\n\tcloned := route.Clone()\n\tcloned.LastUpdate = now\n\tt.routes[key] = append(t.routes[key], cloned)\n\tt.sortRoutes(key)\n\treturn true\n}\n", New: "\t// New route from this origin\n\tappendRoute(t.routes, key, route, now)\n\tt.sortRoutes(key)\n\treturn true\n}\n\nfunc appendRoute(routes map[string][]*Route, key string, route *Route, now time.Time) {\n\tcloned := route.Clone()\n\tcloned.LastUpdate = now\n\troutes[key] = append(routes[key], cloned)\n}\n"},
			}},
			{Name: "table predicate looks for the next hop instead of the own id", ExpectRule: "C11.R5", ExpectKey: "(*routing.ForwardTable).AddRoute", Edits: []Edit{
				{File: "internal/routing/forward.go", Old: "\t// Check for routing loops (is our ID in the path?)\n\tfor _, id := range route.Path {\n\t\tif id == t.localID {\n\t\t\treturn false // Loop detected\n\t\t}\n\t}\n", New: "\tif t.pathHasLoop(route.Path, route.NextHop) {\n\t\treturn false\n\t}\n"},
				{File: "internal/routing/forward.go", Old: "// sortRoutes sorts routes for a key by metric (lowest first).\nfunc (t *ForwardTable) sortRoutes(", New: "func (t *ForwardTable) pathHasLoop(path []identity.AgentID, who identity.AgentID) bool {\n\tfor _, hop := range path {\n\t\tif hop == who {\n\t\t\treturn true\n\t\t}\n\t}\n\treturn false\n}\n\n// sortRoutes sorts routes for a key by metric (lowest first).\nfunc (t *ForwardTable) sortRoutes("},
			}},
			{Name: "slices.Index result tested the wrong way round", ExpectRule: "C11.R5", ExpectKey: "(*routing.Table).AddRoute", Edits: []Edit{
				{File: "internal/routing/table.go", Old: "\t// Check for routing loops (is our ID in the path?)\n\tfor _, id := range route.Path {\n\t\tif id == t.localID {\n\t\t\treturn false // Loop detected\n\t\t}\n\t}\n", New: "\tif slices.Index(route.Path, t.localID) == -1 {\n\t\treturn false\n\t}\n"},
				{File: "internal/routing/table.go", Old: "import (\n", New: "import (\n\t\"slices\"\n"},
			}},
			{Name: "replay leaves out the peer's own presence instead of what was learned from it (seed C11-d)", ExpectRule: "C11.R6", ExpectKey: "SendFullTable", Edits: []Edit{
				{File: "internal/flood/flood.go", Old: "\tfor _, route := range agentRoutes {\n\t\t// Don't send routes learned from the peer we're sending to\n\t\tif route.NextHop == peerID {", New: "\tfor _, route := range agentRoutes {\n\t\tif route.AgentID == peerID {"},
			}},
			{Name: "forward routes replayed without split horizon", ExpectRule: "C11.R6", ExpectKey: "SendFullTable", Edits: []Edit{
				{File: "internal/flood/flood.go", Old: "\tfor _, route := range forwardRoutes {\n\t\t// Don't send routes learned from the peer we're sending to\n\t\tif route.NextHop == peerID {\n\t\t\tcontinue\n\t\t}\n", New: "\tfor _, route := range forwardRoutes {\n"},
			}},
			{Name: "rewrite: nested positive form, negated membership, swapped operands", Edits: []Edit{
				{File: "internal/flood/flood.go", Old: "\t\tif peerID == fromPeer || containsAgent(seenBy, peerID) {\n\t\t\tcontinue\n\t\t}\n\t\tif err := f.sender.SendToPeer(peerID, frame); err != nil {\n\t\t\tf.logger.Debug(logMsg,\n\t\t\t\tlogging.KeyPeerID, peerID.ShortString(),\n\t\t\t\tlogging.KeyError, err)\n\t\t}", New: "\t\tif fromPeer != peerID && !containsAgent(seenBy, peerID) {\n\t\t\tif err := f.sender.SendToPeer(peerID, frame); err != nil {\n\t\t\t\tf.logger.Debug(logMsg,\n\t\t\t\t\tlogging.KeyPeerID, peerID.ShortString(),\n\t\t\t\t\tlogging.KeyError, err)\n\t\t\t}\n\t\t}"},
				{File: "internal/flood/flood.go", Old: "\t// Check loop detection\n\tif containsAgent(seenBy, f.localID) {\n\t\treturn false\n\t}\n", New: "\tself := f.localID\n\tif inList := containsAgent(seenBy, self); inList == true {\n\t\treturn false\n\t}\n"},
			}},
			{Name: "rewrite: deferred unlock in the withdraw handler's dedup helper", Edits: []Edit{
				{File: "internal/flood/flood.go", Old: "\t// Check if we've seen this\n\tf.mu.Lock()\n\tif _, ok := f.seenCache[key]; ok {\n\t\tf.mu.Unlock()\n\t\treturn false\n\t}\n\n\tf.seenCache[key] = &SeenAdvertisement{\n\t\tKey:      key,\n\t\tSeenAt:   time.Now(),\n\t\tSeenFrom: fromPeer,\n\t}\n\tf.mu.Unlock()\n", New: "\tif f.firstSighting(key, fromPeer) == false {\n\t\treturn false\n\t}\n"},
				{File: "internal/flood/flood.go", Old: "// floodAdvertisementEncrypted sends a route advertisement to all peers except the source.", New: "func (f *Flooder) firstSighting(key AdvertisementKey, fromPeer identity.AgentID) bool {\n\tf.mu.Lock()\n\tdefer f.mu.Unlock()\n\t_, dup := f.seenCache[key]\n\tif !dup {\n\t\tf.seenCache[key] = &SeenAdvertisement{Key: key, SeenAt: time.Now(), SeenFrom: fromPeer}\n\t}\n\treturn !dup\n}\n\n// floodAdvertisementEncrypted sends a route advertisement to all peers except the source."},
			}},
			{Name: "rewrite: withdrawal applied and forwarded through small helpers", Edits: []Edit{
				{File: "internal/flood/flood.go", Old: "\t// Process withdrawal\n\tf.routeMgr.ProcessRouteWithdraw(originAgent, entries)\n", New: "\t// Process withdrawal\n\tf.applyWithdraw(originAgent, entries)\n"},
				{File: "internal/flood/flood.go", Old: "// floodWithdrawal sends a route withdrawal to all peers except the source.", New: "func (f *Flooder) applyWithdraw(origin identity.AgentID, entries []routing.RouteEntry) {\n\tif len(entries) > 0 {\n\t\tf.routeMgr.ProcessRouteWithdraw(origin, entries)\n\t}\n}\n\n// floodWithdrawal sends a route withdrawal to all peers except the source."},
			}},
			{Name: "rewrite: seen-by copied before appending, slices.Contains", Edits: []Edit{
				{File: "internal/flood/flood.go", Old: "\tnewSeenBy := append(seenBy, f.localID)\n\tf.floodWithdrawal(", New: "\tnewSeenBy := append(append([]identity.AgentID(nil), seenBy...), f.localID)\n\tf.floodWithdrawal("},
				{File: "internal/flood/flood.go", Old: "\t\"net\"\n\t\"sync\"\n", New: "\t\"net\"\n\t\"slices\"\n\t\"sync\"\n"},
				{File: "internal/flood/flood.go", Old: "\tif containsAgent(seenBy, f.localID) {\n\t\treturn false\n\t}\n\n\t// Store the node info in the routing manager", New: "\tif slices.Contains(seenBy, f.localID) {\n\t\treturn false\n\t}\n\n\t// Store the node info in the routing manager"},
			}},
		},
	})
}

// ===================================================================================
// Shared anchors of internal/flood used by C11–C15 (all identifiers prefixed c11).
// ===================================================================================

// c11Flood gathers the role-resolved anchors of internal/flood.
type c11Flood struct {
	p        *kit.Program
	flooder  *types.Named
	agentID  types.Type
	localID  *types.Var
	routeMgr *types.Var
	seenMaps map[*types.Var]bool
	fns      []*ssa.Function        // named functions and methods of package flood
	floodFns []*ssa.Function        // forwarding loops: SendToPeer over GetPeerIDs() in a function with sender / seen-by parameters
	reach    map[*ssa.Function]bool // functions of package flood from which a forwarding loop is reachable (static calls)
	handlers []*ssa.Function        // members of reach without a caller in reach: the receive entry points
	lits     []*c11Lit              // literals of protocol message types that have a SeenBy field
}

// c11Lit is one composite literal of a flooded protocol message.
type c11Lit struct {
	fn    *ssa.Function
	alloc *ssa.Alloc
	typ   *types.Named
	vals  map[string]ssa.Value
	at    map[string]ssa.Instruction
	ord   int
}

func (l *c11Lit) key() string {
	return fmt.Sprintf("%s %s literal #%d", kit.FuncName(l.fn), l.typ.Obj().Name(), l.ord)
}

const c11FloodPkg = "internal/flood"

func c11IsAgentID(cx *c11Flood, t types.Type) bool { return types.Identical(t, cx.agentID) }

func c11IsAgentList(cx *c11Flood, t types.Type) bool {
	s, ok := t.Underlying().(*types.Slice)
	return ok && types.Identical(s.Elem(), cx.agentID)
}

func c11NamedOf(t types.Type) *types.Named {
	if p, ok := t.(*types.Pointer); ok {
		t = p.Elem()
	}
	n, _ := t.(*types.Named)
	return n
}

func c11NamedIn(t types.Type, pkg string) *types.Named {
	n := c11NamedOf(t)
	if n == nil || n.Obj().Pkg() == nil || n.Obj().Pkg().Path() != kit.PkgPath(pkg) {
		return nil
	}
	return n
}

func c11HasField(n *types.Named, name string) *types.Var {
	for _, f := range kit.StructFields(n) {
		if f.Name() == name {
			return f
		}
	}
	return nil
}

// c11SendPeer returns the destination of a send: the first argument of SendToPeer, or — for a call
// to a flood-package wrapper whose body sends to one of its own parameters exactly once
// (send-and-log helpers) — the argument bound to that parameter.
func c11SendPeer(c ssa.CallInstruction) (ssa.Value, bool) {
	if c11IsSend(c) {
		return kit.Arg(c, 0), true
	}
	cal := kit.CalleeOf(c)
	if cal.Static == nil || cal.Static.Blocks == nil || kit.FuncPkgPath(cal.Static) != kit.PkgPath(c11FloodPkg) {
		return nil, false
	}
	var prm *ssa.Parameter
	n := 0
	for _, c2 := range kit.Calls(cal.Static) {
		if c11IsSend(c2) {
			n++
			prm, _ = kit.Arg(c2, 0).(*ssa.Parameter)
			if c11LoopDepth(c2.Block()) != 0 {
				prm = nil
			}
		}
	}
	if n != 1 || prm == nil || prm.Parent() != cal.Static {
		return nil, false
	}
	idx := c11ParamIndex(prm)
	if idx >= len(c.Common().Args) {
		return nil, false
	}
	return c.Common().Args[idx], true
}

// c11IsSend: call is PeerSender.SendToPeer / (*peer.Manager).SendToPeer (exported API, implemented by test mocks).
func c11IsSend(c ssa.CallInstruction) bool {
	cal := kit.CalleeOf(c)
	return cal.Name == "SendToPeer" && cal.Built == "" && kit.Arg(c, 0) != nil && kit.Arg(c, 1) != nil
}

func newC11Flood(p *kit.Program, r *kit.Report) *c11Flood {
	cx := &c11Flood{p: p, seenMaps: map[*types.Var]bool{}, reach: map[*ssa.Function]bool{}}
	cx.flooder = p.NamedType(c11FloodPkg, "Flooder")
	id := p.NamedType("internal/identity", "AgentID")
	if !r.Require(cx.flooder != nil, "anchor-unresolved: type internal/flood.Flooder") ||
		!r.Require(id != nil, "anchor-unresolved: type internal/identity.AgentID") {
		return nil
	}
	cx.agentID = id
	for _, f := range kit.StructFields(cx.flooder) {
		switch {
		case types.Identical(f.Type(), cx.agentID):
			cx.localID = f
		case c11NamedIn(f.Type(), "internal/routing") != nil && c11NamedIn(f.Type(), "internal/routing").Obj().Name() == "Manager":
			cx.routeMgr = f
		}
		if _, ok := f.Type().Underlying().(*types.Map); ok {
			cx.seenMaps[f] = true
		}
	}
	r.Require(cx.localID != nil, "anchor-unresolved: AgentID field of Flooder (the local id)")
	r.Require(cx.routeMgr != nil, "anchor-unresolved: *routing.Manager field of Flooder")
	r.Require(len(cx.seenMaps) >= 1, "anchor-unresolved: map-typed (seen cache) fields of Flooder")
	for _, f := range p.FuncsInPkg(c11FloodPkg) {
		if f.Parent() == nil {
			cx.fns = append(cx.fns, f)
		}
	}
	if len(r.Floors) > 0 {
		return nil
	}
	// forwarding loops
	for _, fn := range cx.fns {
		hasCtx := false
		for i, prm := range fn.Params {
			if i == 0 && fn.Signature.Recv() != nil {
				continue
			}
			if c11IsAgentID(cx, prm.Type()) || c11IsAgentList(cx, prm.Type()) {
				hasCtx = true
			}
		}
		if !hasCtx {
			continue
		}
		for _, c := range kit.Calls(fn) {
			if peer, isSend := c11SendPeer(c); isSend && c11FromPeerList(peer) {
				cx.floodFns = append(cx.floodFns, fn)
				break
			}
		}
	}
	// reach: least set containing the forwarding loops closed under "statically calls a member"
	for _, f := range cx.floodFns {
		cx.reach[f] = true
	}
	for changed := true; changed; {
		changed = false
		for _, fn := range cx.fns {
			if cx.reach[fn] {
				continue
			}
			for _, c := range kit.Calls(fn) {
				if cal := kit.CalleeOf(c); cal.Static != nil && cx.reach[cal.Static] {
					cx.reach[fn] = true
					changed = true
					break
				}
			}
		}
	}
	for _, fn := range cx.fns {
		if !cx.reach[fn] {
			continue
		}
		called := false
		for _, site := range p.StaticCallers(fn) {
			if cx.reach[kit.TopLevel(site.Parent())] {
				called = true
			}
		}
		if !called {
			cx.handlers = append(cx.handlers, fn)
		}
	}
	// message literals
	ords := map[string]int{}
	for _, fn := range cx.fns {
		kit.Instrs(fn, func(in ssa.Instruction) {
			a, ok := in.(*ssa.Alloc)
			if !ok {
				return
			}
			n := c11NamedIn(a.Type(), "internal/protocol")
			if n == nil || c11HasField(n, "SeenBy") == nil {
				return
			}
			k := kit.FuncName(fn) + "|" + n.Obj().Name()
			ords[k]++
			l := &c11Lit{fn: fn, alloc: a, typ: n, ord: ords[k]}
			l.vals, l.at = c11FieldStores(a)
			cx.lits = append(cx.lits, l)
		})
	}
	return cx
}

// c11FieldStores returns, per field name, the value stored through &alloc.field (the literal's
// initialisation and later assignments; the last store in block order wins).
func c11FieldStores(a *ssa.Alloc) (map[string]ssa.Value, map[string]ssa.Instruction) {
	vals := map[string]ssa.Value{}
	at := map[string]ssa.Instruction{}
	if a.Referrers() == nil {
		return vals, at
	}
	for _, ref := range *a.Referrers() {
		fa, ok := ref.(*ssa.FieldAddr)
		if !ok || fa.X != ssa.Value(a) || fa.Referrers() == nil {
			continue
		}
		f := kit.FieldOfAddr(fa)
		if f == nil {
			continue
		}
		for _, r2 := range *fa.Referrers() {
			if st, ok := r2.(*ssa.Store); ok && st.Addr == ssa.Value(fa) {
				vals[f.Name()] = st.Val
				at[f.Name()] = st
			}
		}
	}
	return vals, at
}

// c11FromPeerList: v is (derived from) an element of the result of a GetPeerIDs() call.
func c11FromPeerList(v ssa.Value) bool {
	// flood-package helpers that select the recipients (e.g. a filtered copy of GetPeerIDs()) are followed
	follow := func(c ssa.CallInstruction) bool {
		cal := kit.CalleeOf(c)
		return cal.Static != nil && kit.FuncPkgPath(cal.Static) == kit.PkgPath(c11FloodPkg)
	}
	for _, s := range kit.Slice(v, kit.SliceOpts{FollowCall: follow}) {
		if s.Kind == kit.SrcCall && s.Call != nil && kit.CalleeOf(s.Call).Name == "GetPeerIDs" {
			return true
		}
	}
	return false
}

// c11Norm strips negations and comparisons with boolean constants: returns the underlying
// condition and the polarity it has when the original condition has polarity pol.
func c11Norm(c ssa.Value, pol bool) (ssa.Value, bool) {
	for {
		switch x := c.(type) {
		case *ssa.UnOp:
			if x.Op == token.NOT {
				c, pol = x.X, !pol
				continue
			}
		case *ssa.BinOp:
			if x.Op == token.EQL || x.Op == token.NEQ {
				if b, ok := kit.ConstBool(x.Y); ok {
					c = x.X
					if (x.Op == token.EQL) != b {
						pol = !pol
					}
					continue
				}
				if b, ok := kit.ConstBool(x.X); ok {
					c = x.Y
					if (x.Op == token.EQL) != b {
						pol = !pol
					}
					continue
				}
			}
		}
		return c, pol
	}
}

// c11Guards returns the normalised guards of an instruction.
func c11Guards(in ssa.Instruction) []kit.Guard {
	var out []kit.Guard
	for _, g := range kit.GuardsOf(in) {
		c, pol := c11Norm(g.Cond, g.Polarity)
		out = append(out, kit.Guard{Cond: c, Polarity: pol, If: g.If})
	}
	return out
}

// c11Guarded: control reaches `in` only when val has truth value want.
func c11Guarded(in ssa.Instruction, val ssa.Value, want bool) bool {
	for _, g := range c11Guards(in) {
		if g.Cond == val && g.Polarity == want {
			return true
		}
	}
	return false
}

// c11SameLoad: a and b are the same value, or loads of the same address, or loads of the same
// field of the same base.
func c11SameLoad(a, b ssa.Value) bool {
	if a == b {
		return true
	}
	ua, ok1 := a.(*ssa.UnOp)
	ub, ok2 := b.(*ssa.UnOp)
	if !ok1 || !ok2 || ua.Op != token.MUL || ub.Op != token.MUL {
		return false
	}
	if ua.X == ub.X {
		return true
	}
	fa, ok1 := ua.X.(*ssa.FieldAddr)
	fb, ok2 := ub.X.(*ssa.FieldAddr)
	if ok1 && ok2 && fa.Field == fb.Field && (fa.X == fb.X || c11SameLoad(fa.X, fb.X)) {
		return true
	}
	ia, ok1 := ua.X.(*ssa.IndexAddr)
	ib, ok2 := ub.X.(*ssa.IndexAddr)
	return ok1 && ok2 && ia.X == ib.X && ia.Index == ib.Index
}

// c11LoadsField: v is a load of field f (through any base).
func c11LoadsField(v ssa.Value, f *types.Var) bool {
	lf, _ := kit.LoadedField(v)
	return lf != nil && lf == f
}

// c11Membership recognises "list contains elem": slices.Contains, or a repository function
// func([]T, T) bool whose body returns true exactly under an element==argument comparison.
func c11Membership(v ssa.Value) (list, elem ssa.Value, ok bool) {
	c, isCall := v.(*ssa.Call)
	if !isCall || len(c.Call.Args) != 2 || c.Call.IsInvoke() {
		return nil, nil, false
	}
	cal := kit.CalleeOf(c)
	if cal.Pkg == "slices" && cal.Name == "Contains" {
		return c.Call.Args[0], c.Call.Args[1], true
	}
	if cal.Static == nil || !c11IsMembershipFn(cal.Static) {
		return nil, nil, false
	}
	return c.Call.Args[0], c.Call.Args[1], true
}

var c11MemberCache = map[*ssa.Function]bool{}

func c11IsMembershipFn(fn *ssa.Function) bool {
	if v, ok := c11MemberCache[fn]; ok {
		return v
	}
	res := func() bool {
		if len(fn.Params) != 2 || fn.Signature.Results().Len() != 1 || fn.Blocks == nil {
			return false
		}
		if _, ok := fn.Params[0].Type().Underlying().(*types.Slice); !ok {
			return false
		}
		// a thin wrapper: `return slices.Contains(list, id)` (or another membership helper)
		if rets := kit.Returns(fn); len(rets) == 1 || (len(rets) == 2 && fn.Recover != nil) {
			for _, ret := range rets {
				if ret.Block() == fn.Recover {
					continue
				}
				c, pol := c11Norm(kit.ReturnResult(ret, 0), true)
				if l, e, ok := c11Membership(c); ok && pol && l == ssa.Value(fn.Params[0]) && e == ssa.Value(fn.Params[1]) {
					return true
				}
			}
		}
		nTrue, nFalse := 0, 0
		for _, ret := range kit.Returns(fn) {
			if ret.Block() == fn.Recover {
				continue
			}
			b, isConst := kit.ConstBool(kit.ReturnResult(ret, 0))
			if !isConst {
				return false
			}
			if !b {
				nFalse++
				continue
			}
			nTrue++
			okGuard := false
			for _, g := range c11Guards(ret) {
				bo, isBin := g.Cond.(*ssa.BinOp)
				if !isBin || !((bo.Op == token.EQL && g.Polarity) || (bo.Op == token.NEQ && !g.Polarity)) {
					continue
				}
				if (c11ElemOf(bo.X, fn.Params[0]) && bo.Y == ssa.Value(fn.Params[1])) || (c11ElemOf(bo.Y, fn.Params[0]) && bo.X == ssa.Value(fn.Params[1])) {
					okGuard = true
				}
			}
			if !okGuard {
				return false
			}
		}
		return nTrue > 0 && nFalse > 0
	}()
	c11MemberCache[fn] = res
	return res
}

// c11ElemOf: v is a load of an element of list (list[i] for any i).
func c11ElemOf(v ssa.Value, list ssa.Value) bool {
	switch x := v.(type) {
	case *ssa.UnOp:
		if x.Op == token.MUL {
			if ia, ok := x.X.(*ssa.IndexAddr); ok {
				return ia.X == list
			}
		}
	case *ssa.Index:
		return x.X == list
	}
	return false
}

// c11Desc renders a value as a path rooted at a parameter of the function at the bottom of the
// call chain: parameters of callees are replaced by the arguments at the given call sites
// (chain[len-1] is the innermost call). Used to compare "the same received datum" reached two ways.
func c11Desc(v ssa.Value, chain []ssa.CallInstruction) string {
	v, chain = c11Reduce(v, chain)
	switch x := v.(type) {
	case *ssa.Parameter:
		return fmt.Sprintf("%s#%d", kit.FuncName(x.Parent()), c11ParamIndex(x))
	case *ssa.UnOp:
		if x.Op == token.MUL {
			if fa, ok := x.X.(*ssa.FieldAddr); ok {
				if f := kit.FieldOfAddr(fa); f != nil {
					return c11FieldDesc(fa.X, f, chain)
				}
			}
			if a, ok := x.X.(*ssa.Alloc); ok {
				return fmt.Sprintf("local@%p", a)
			}
		}
	case *ssa.Field:
		if f := kit.FieldOfAddr(x); f != nil {
			return c11FieldDesc(x.X, f, chain)
		}
	case *ssa.Const:
		return "const " + x.String()
	}
	return fmt.Sprintf("%T@%p", v, v)
}

// c11Reduce follows a value to where it comes from without changing it: conversions of type,
// parameters replaced by the argument at the matching call of the chain, and loads of local cells
// that are assigned exactly once (variables captured by a closure, spilled parameters).
func c11Reduce(v ssa.Value, chain []ssa.CallInstruction) (ssa.Value, []ssa.CallInstruction) {
	for i := 0; i < 12; i++ {
		switch x := v.(type) {
		case *ssa.ChangeType:
			v = x.X
			continue
		case *ssa.Parameter:
			if n := len(chain); n > 0 {
				idx := c11ParamIndex(x)
				if cal := kit.CalleeOf(chain[n-1]); cal.Static == x.Parent() && idx < len(chain[n-1].Common().Args) {
					v, chain = chain[n-1].Common().Args[idx], chain[:n-1]
					continue
				}
			}
		case *ssa.UnOp:
			if d := c11DerefCell(x); d != nil {
				v = d
				continue
			}
			// a variable captured by a closure: the free variable is the address of the parent's cell
			if fv, ok := x.X.(*ssa.FreeVar); ok && x.Op == token.MUL {
				if cell := c11FreeVarCell(fv); cell != nil {
					if d := c11CellValue(cell); d != nil {
						v = d
						continue
					}
				}
			}
		}
		break
	}
	return v, chain
}

// c11FreeVarCell returns the parent's local cell a closure's free variable is bound to.
func c11FreeVarCell(fv *ssa.FreeVar) *ssa.Alloc {
	fn := fv.Parent()
	parent := fn.Parent()
	if parent == nil {
		return nil
	}
	idx := -1
	for i, q := range fn.FreeVars {
		if q == fv {
			idx = i
		}
	}
	var cell *ssa.Alloc
	kit.Instrs(parent, func(in ssa.Instruction) {
		if mc, ok := in.(*ssa.MakeClosure); ok && mc.Fn == ssa.Value(fn) && idx >= 0 && idx < len(mc.Bindings) {
			cell, _ = mc.Bindings[idx].(*ssa.Alloc)
		}
	})
	return cell
}

// c11DerefCell: u is a load of a local cell that is stored to exactly once as a whole (and never
// through a field address): returns the stored value, else nil.
func c11DerefCell(u *ssa.UnOp) ssa.Value {
	if u.Op != token.MUL {
		return nil
	}
	a, ok := u.X.(*ssa.Alloc)
	if !ok {
		return nil
	}
	return c11CellValue(a)
}

func c11CellValue(a *ssa.Alloc) ssa.Value {
	if a.Referrers() == nil {
		return nil
	}
	var val ssa.Value
	n := 0
	for _, ref := range *a.Referrers() {
		if st, ok := ref.(*ssa.Store); ok && st.Addr == ssa.Value(a) {
			val = st.Val
			n++
		}
	}
	if n != 1 {
		return nil
	}
	return val
}

// c11FieldDesc describes field f of the struct (value or pointer) base: a struct literal built
// in the function is looked through to the value stored into that field.
func c11FieldDesc(base ssa.Value, f *types.Var, chain []ssa.CallInstruction) string {
	b, ch := c11Reduce(base, chain)
	var lit *ssa.Alloc
	switch x := b.(type) {
	case *ssa.Alloc:
		if whole := c11CellValue(x); whole != nil {
			return c11FieldDesc(whole, f, ch) // cell holding a struct value (spilled parameter / local copy)
		}
		lit = x
	case *ssa.UnOp:
		if x.Op == token.MUL {
			if a, ok := x.X.(*ssa.Alloc); ok {
				lit = a
			}
		}
	}
	if lit != nil {
		vals, _ := c11FieldStores(lit)
		if sv, ok := vals[f.Name()]; ok {
			return c11Desc(sv, ch)
		}
	}
	return c11Desc(b, ch) + "." + f.Name()
}

// c11Resolve maps v through parameters to the argument values at every static call site
// (depth ≤ 4) and through phis to their edges; the result is the set of alternatives.
func c11Resolve(p *kit.Program, v ssa.Value) []ssa.Value {
	var out []ssa.Value
	seen := map[ssa.Value]bool{}
	var rec func(v ssa.Value, d int)
	rec = func(v ssa.Value, d int) {
		if v == nil || seen[v] {
			return
		}
		seen[v] = true
		switch x := v.(type) {
		case *ssa.ChangeType:
			rec(x.X, d)
			return
		case *ssa.Phi:
			for _, e := range x.Edges {
				rec(e, d)
			}
			return
		case *ssa.Parameter:
			fn := x.Parent()
			idx := -1
			for i, q := range fn.Params {
				if q == x {
					idx = i
				}
			}
			sites := p.StaticCallers(fn)
			if d < 4 && idx >= 0 && len(sites) > 0 {
				for _, s := range sites {
					if idx < len(s.Common().Args) {
						rec(s.Common().Args[idx], d+1)
					}
				}
				return
			}
		}
		out = append(out, v)
	}
	rec(v, 0)
	return out
}

// c11LoopDepth counts the natural loops containing block b.
func c11LoopDepth(b *ssa.BasicBlock) int {
	n := 0
	fn := b.Parent()
	for _, h := range fn.Blocks {
		if !(h == b || h.Dominates(b)) {
			continue
		}
		in := false
		for _, u := range h.Preds {
			if !(h == u || h.Dominates(u)) {
				continue // not a back edge
			}
			// b reaches u without passing through h
			seen := map[*ssa.BasicBlock]bool{h: true}
			work := []*ssa.BasicBlock{b}
			for len(work) > 0 && !in {
				x := work[len(work)-1]
				work = work[:len(work)-1]
				if x == u {
					in = true
					break
				}
				if seen[x] {
					continue
				}
				seen[x] = true
				work = append(work, x.Succs...)
			}
			if b == h {
				in = true
			}
		}
		if in {
			n++
		}
	}
	return n
}

// c11RecvList: v denotes the seen-by list received by handler h: a []AgentID parameter of h, or a
// load of a field named SeenBy from a parameter of h.
func c11RecvList(cx *c11Flood, v ssa.Value, h *ssa.Function) bool {
	if !c11IsAgentList(cx, v.Type()) {
		return false
	}
	switch x := v.(type) {
	case *ssa.Parameter:
		return x.Parent() == h
	case *ssa.UnOp:
		if x.Op == token.MUL {
			if fa, ok := x.X.(*ssa.FieldAddr); ok {
				if f := kit.FieldOfAddr(fa); f != nil && f.Name() == "SeenBy" {
					prm, ok := fa.X.(*ssa.Parameter)
					return ok && prm.Parent() == h
				}
			}
		}
	}
	return false
}

// c11LitAt is a message literal together with the call chain that leads to it from an entry point.
type c11LitAt struct {
	lit   *c11Lit
	chain []ssa.CallInstruction
}

// c11ForwardedLits lists the message literals built on behalf of entry point h: in h itself, in
// the functions of its forwarding call chain, and in helpers these call that build a message.
func c11ForwardedLits(cx *c11Flood, h *ssa.Function) []c11LitAt {
	var out []c11LitAt
	builds := func(fn *ssa.Function) bool {
		for _, l := range cx.lits {
			if l.fn == fn {
				return true
			}
		}
		return false
	}
	var walk func(fn *ssa.Function, chain []ssa.CallInstruction, depth int)
	walk = func(fn *ssa.Function, chain []ssa.CallInstruction, depth int) {
		for _, l := range cx.lits {
			if l.fn == fn {
				out = append(out, c11LitAt{l, chain})
			}
		}
		if depth >= 3 {
			return
		}
		for _, c := range kit.Calls(fn) {
			cal := kit.CalleeOf(c)
			if cal.Static == nil || cal.Static == fn || kit.FuncPkgPath(cal.Static) != kit.PkgPath(c11FloodPkg) {
				continue
			}
			if cx.reach[cal.Static] || builds(cal.Static) {
				walk(cal.Static, append(append([]ssa.CallInstruction{}, chain...), c), depth+1)
			}
		}
	}
	walk(h, nil, 0)
	return out
}

// ===================================================================================
// C11
// ===================================================================================

// c11Dedup is the seen-cache test-and-insert of one handler.
type c11Dedup struct {
	fn      *ssa.Function   // function holding the probe and the insertion (the handler or a helper)
	probe   ssa.Instruction // the comma-ok Lookup, or the call to a helper that performs it
	keyVal  ssa.Value       // the key probed, as a value of fn
	ok      ssa.Value       // value telling whether the key was found
	okFound bool            // truth value of ok that means "found"
	val     ssa.Value       // the looked-up entry (pointer): `val != nil` is a found-test too
	insert  *ssa.MapUpdate
	field   *types.Var
	chain   []ssa.CallInstruction // calls leading from the handler down to fn (empty when inline)
	call    *ssa.Call             // last call of chain; nil when inline
	res     ssa.Value             // fn's boolean verdict as seen by its caller (the call, or the Extract of it)
	resIdx  int
	newVal  bool // verdict value that means "first sighting"
	detail  string
}

var c11ReachWriteCache = map[*ssa.Function]bool{}

// c11StoresRoutes: fn (a routing.Manager method) reaches, through static calls inside
// internal/routing, a table method named AddRoute or RemoveRoute, or it takes the announcement's
// sequence number (node-info store).
func c11StoresRoutes(fn *ssa.Function) bool {
	if v, ok := c11ReachWriteCache[fn]; ok {
		return v
	}
	c11ReachWriteCache[fn] = false
	res := false
	for _, c := range kit.Calls(fn) {
		cal := kit.CalleeOf(c)
		if cal.Static == nil || cal.Pkg != kit.PkgPath("internal/routing") {
			continue
		}
		if cal.Recv != "" && (cal.Name == "AddRoute" || cal.Name == "RemoveRoute") {
			res = true
			break
		}
		if c11StoresRoutes(cal.Static) {
			res = true
			break
		}
	}
	c11ReachWriteCache[fn] = res
	return res
}

type c11Sink struct {
	in   ssa.Instruction
	kind string // "store", "forward", "result"
	name string
}

// c11IsStoreCall: the callee is a routing.Manager method that stores or removes routes / node info
// of an announcement.
func c11IsStoreCall(cal kit.Callee) bool {
	if cal.Static == nil || cal.Pkg != kit.PkgPath("internal/routing") || cal.Recv != "Manager" {
		return false
	}
	for i, prm := range cal.Static.Params {
		if b, ok := prm.Type().Underlying().(*types.Basic); ok && i > 0 && b.Kind() == types.Uint64 {
			return true
		}
	}
	return c11StoresRoutes(cal.Static)
}

// c11Sinks lists the effects of handler h that must happen at most once per announcement.
func c11Sinks(cx *c11Flood, h *ssa.Function) []c11Sink {
	var out []c11Sink
	ord := map[string]int{}
	add := func(in ssa.Instruction, kind, what string) {
		ord[kind+what]++
		out = append(out, c11Sink{in, kind, fmt.Sprintf("%s %s #%d", kind, what, ord[kind+what])})
	}
	kit.Instrs(h, func(in ssa.Instruction) {
		switch x := in.(type) {
		case ssa.CallInstruction:
			cal := kit.CalleeOf(x)
			if cal.Static == nil {
				return
			}
			if cx.reach[cal.Static] {
				add(in, "forward", cal.Name)
				return
			}
			if c11IsStoreCall(cal) {
				add(in, "store", cal.Name)
				return
			}
			// a helper of package flood (outside the forwarding chain) that performs the stores
			if kit.FuncPkgPath(cal.Static) == kit.PkgPath(c11FloodPkg) && cal.Static != h {
				for _, c2 := range kit.Calls(cal.Static) {
					if c11IsStoreCall(kit.CalleeOf(c2)) {
						add(in, "store", "via "+cal.Name)
						break
					}
				}
			}
		case *ssa.Return:
			if x.Block() == h.Recover || len(x.Results) != 1 {
				return
			}
			if b, ok := kit.ConstBool(kit.ReturnResult(x, 0)); ok && b {
				add(in, "result", "true")
			}
		}
	})
	return out
}

// c11FindDedup locates the seen-cache lookup+insert pair used by handler h.
func c11FindDedup(cx *c11Flood, h *ssa.Function) *c11Dedup {
	scan := func(fn *ssa.Function) *c11Dedup {
		var ups []*ssa.MapUpdate
		kit.Instrs(fn, func(in ssa.Instruction) {
			if x, ok := in.(*ssa.MapUpdate); ok {
				if f, _ := kit.LoadedField(x.Map); f != nil && cx.seenMaps[f] {
					ups = append(ups, x)
				}
			}
		})
		if len(ups) == 0 {
			return nil
		}
		var found *c11Dedup
		kit.Instrs(fn, func(in ssa.Instruction) {
			if found != nil {
				return
			}
			switch x := in.(type) {
			case *ssa.Lookup:
				lf, _ := kit.LoadedField(x.X)
				if lf == nil || !cx.seenMaps[lf] {
					return
				}
				if !x.CommaOk {
					// `entry := cache[key]; if entry == nil {…}`: the nil test of the pointer entry is the found-test
					if _, isPtr := x.Type().Underlying().(*types.Pointer); !isPtr || x.Referrers() == nil {
						return
					}
					var test *ssa.BinOp
					for _, ref := range *x.Referrers() {
						if bo, ok := ref.(*ssa.BinOp); ok && (bo.Op == token.EQL || bo.Op == token.NEQ) && (kit.IsNilConst(bo.X) || kit.IsNilConst(bo.Y)) && test == nil {
							test = bo
						}
					}
					if test == nil {
						return
					}
					for _, u := range ups {
						if uf, _ := kit.LoadedField(u.Map); uf == lf {
							found = &c11Dedup{fn: fn, probe: x, keyVal: x.Index, insert: u, field: lf, ok: test, okFound: test.Op == token.NEQ, val: x}
							return
						}
					}
					return
				}
				for _, u := range ups {
					if uf, _ := kit.LoadedField(u.Map); uf == lf {
						found = &c11Dedup{fn: fn, probe: x, keyVal: x.Index, insert: u, field: lf, ok: c11ExtractOf(x, 1), okFound: true, val: c11ExtractOf(x, 0)}
						return
					}
				}
			case *ssa.Call:
				// a probe helper: looks its parameter up in a seen cache and reports found / not found
				cal := kit.CalleeOf(x)
				if cal.Static == nil || cal.Static == fn || kit.FuncPkgPath(cal.Static) != kit.PkgPath(c11FloodPkg) || cx.reach[cal.Static] {
					return
				}
				lf, keyIdx, foundVal, ok := c11ProbeHelper(cx, cal.Static)
				if !ok || keyIdx >= len(x.Call.Args) {
					return
				}
				for _, u := range ups {
					if uf, _ := kit.LoadedField(u.Map); uf == lf {
						found = &c11Dedup{fn: fn, probe: x, keyVal: x.Call.Args[keyIdx], insert: u, field: lf, ok: x, okFound: foundVal}
						return
					}
				}
			}
		})
		return found
	}
	if d := scan(h); d != nil {
		return d
	}
	// helpers of package flood (outside the forwarding chain), up to three calls deep
	type item struct {
		fn    *ssa.Function
		chain []ssa.CallInstruction
	}
	seen := map[*ssa.Function]bool{h: true}
	work := []item{{h, nil}}
	for len(work) > 0 {
		it := work[0]
		work = work[1:]
		if len(it.chain) >= 3 {
			continue
		}
		for _, c := range kit.Calls(it.fn) {
			call, isCall := c.(*ssa.Call)
			cal := kit.CalleeOf(c)
			if !isCall || cal.Static == nil || cal.Static.Blocks == nil || kit.FuncPkgPath(cal.Static) != kit.PkgPath(c11FloodPkg) || cx.reach[cal.Static] || seen[cal.Static] {
				continue
			}
			seen[cal.Static] = true
			chain := append(append([]ssa.CallInstruction{}, it.chain...), c)
			if d := scan(cal.Static); d != nil {
				d.chain = chain
				d.call = call
				return d
			}
			work = append(work, item{cal.Static, chain})
		}
	}
	return nil
}

// foundTruth: c (a normalised condition) is this dedup's found-test — the ok value / the probe's
// verdict, or a nil comparison of the looked-up entry; returns the truth value that means "found".
func (d *c11Dedup) foundTruth(c ssa.Value) (bool, bool) {
	if d.ok != nil && c == d.ok {
		return d.okFound, true
	}
	if bo, ok := c.(*ssa.BinOp); ok && d.val != nil && (bo.Op == token.EQL || bo.Op == token.NEQ) {
		if (bo.X == d.val && kit.IsNilConst(bo.Y)) || (bo.Y == d.val && kit.IsNilConst(bo.X)) {
			return bo.Op == token.NEQ, true
		}
	}
	return false, false
}

// c11NotFoundGuard: control reaches `in` only on a not-found outcome of the probe.
func c11NotFoundGuard(in ssa.Instruction, d *c11Dedup) bool {
	for _, g := range c11Guards(in) {
		if ft, ok := d.foundTruth(g.Cond); ok && g.Polarity != ft {
			return true
		}
	}
	return false
}

// c11ReachSkippingInsert: on the not-found outcome (every branch on the found-test takes its
// not-found edge), can `target` be reached from the probe without executing the insertion?
func c11ReachSkippingInsert(d *c11Dedup, target ssa.Instruction) bool {
	start := d.probe.Block()
	seen := map[*ssa.BasicBlock]bool{}
	type item struct {
		b    *ssa.BasicBlock
		from int
	}
	work := []item{{start, kit.InstrIndex(d.probe) + 1}}
	for len(work) > 0 {
		it := work[len(work)-1]
		work = work[:len(work)-1]
		if it.from == 0 {
			if seen[it.b] {
				continue
			}
			seen[it.b] = true
		}
		blocked := false
		for i := it.from; i < len(it.b.Instrs); i++ {
			in := it.b.Instrs[i]
			if in == ssa.Instruction(d.insert) {
				blocked = true
				break
			}
			if in == target {
				return true
			}
		}
		if blocked {
			continue
		}
		if n := len(it.b.Instrs); n > 0 {
			if ifi, ok := it.b.Instrs[n-1].(*ssa.If); ok {
				c, pol := c11Norm(ifi.Cond, true)
				if ft, isTest := d.foundTruth(c); isTest {
					if (!ft) == pol {
						work = append(work, item{it.b.Succs[0], 0})
					} else {
						work = append(work, item{it.b.Succs[1], 0})
					}
					continue
				}
			}
		}
		for _, sc := range it.b.Succs {
			work = append(work, item{sc, 0})
		}
	}
	return false
}

// c11ProbeHelper recognises a function that looks one of its parameters up in a seen-cache map
// (comma-ok), does not insert, and returns whether the key was found: returns the map field, the
// index of the key parameter and the result value that means "found".
func c11ProbeHelper(cx *c11Flood, fn *ssa.Function) (*types.Var, int, bool, bool) {
	if fn.Blocks == nil || fn.Signature.Results().Len() != 1 {
		return nil, 0, false, false
	}
	if b, ok := fn.Signature.Results().At(0).Type().Underlying().(*types.Basic); !ok || b.Kind() != types.Bool {
		return nil, 0, false, false
	}
	var lk *ssa.Lookup
	bad := false
	kit.Instrs(fn, func(in ssa.Instruction) {
		switch x := in.(type) {
		case *ssa.Lookup:
			if f, _ := kit.LoadedField(x.X); f != nil && cx.seenMaps[f] && x.CommaOk {
				if lk != nil {
					bad = true
				}
				lk = x
			}
		case *ssa.MapUpdate:
			if f, _ := kit.LoadedField(x.Map); f != nil && cx.seenMaps[f] {
				bad = true
			}
		}
	})
	if lk == nil || bad {
		return nil, 0, false, false
	}
	prm, ok := lk.Index.(*ssa.Parameter)
	if !ok {
		return nil, 0, false, false
	}
	okv := c11ExtractOf(lk, 1)
	if okv == nil {
		return nil, 0, false, false
	}
	foundSet, missSet := map[bool]bool{}, map[bool]bool{}
	for _, ret := range kit.Returns(fn) {
		if ret.Block() == fn.Recover {
			continue
		}
		v := kit.ReturnResult(ret, 0)
		if b, isC := kit.ConstBool(v); isC {
			switch {
			case c11Guarded(ret, okv, true):
				foundSet[b] = true
			case c11Guarded(ret, okv, false):
				missSet[b] = true
			default:
				return nil, 0, false, false
			}
			continue
		}
		c, pol := c11Norm(v, true)
		if c != okv {
			return nil, 0, false, false
		}
		foundSet[pol], missSet[!pol] = true, true
	}
	if len(foundSet) != 1 || len(missSet) != 1 {
		return nil, 0, false, false
	}
	var fv bool
	for b := range foundSet {
		fv = b
	}
	if missSet[fv] {
		return nil, 0, false, false
	}
	f, _ := kit.LoadedField(lk.X)
	return f, c11ParamIndex(prm), fv, true
}

func runC11(p *kit.Program, r *kit.Report) {
	r.Rule("C11.R1", "process once: in every receive entry point the seen-cache lookup and insertion use one key, lie in one write-locked region, the insertion happens only on the not-found edge, the key is the (origin, number) pair of the message that is forwarded, and every route store, forward and 'new' result is dominated by the first-sighting edge")
	r.Rule("C11.R2", "expiry-proof: the same effects are dominated by the false edge of a membership test of the local id in the received seen-by list")
	r.Rule("C11.R3", "every flooded message literal carries the local id in SeenBy; a forwarded one carries the received seen-by list as well")
	r.Rule("C11.R5", "no route through self: in every AddRoute method of the routing tables each table write (map insert, slot replacement, field store into a stored record) is dominated by the loop that scans route.Path for the table's own id, and is unreachable from its reject edge")
	r.Rule("C11.R6", "split horizon of full-table replays: every stored route record selected for a replay to a peer is filtered by record.NextHop != that peer (directly, or by the routing call that produced the list and is given the peer)")
	r.Rule("C11.R4", "the forwarding loop calls SendToPeer exactly once, inside a single loop over GetPeerIDs(), only for peers different from the sender and not in the seen-by list")
	cx := newC11Flood(p, r)
	if cx == nil {
		return
	}
	r.Count("flood_functions", len(cx.fns))
	r.Count("forwarding_loops", len(cx.floodFns))
	r.Count("receive_entry_points", len(cx.handlers))
	r.Count("message_literals", len(cx.lits))
	r.Require(len(cx.floodFns) >= 1, "floor: no forwarding loop (SendToPeer over GetPeerIDs with sender/seen-by parameters) found in internal/flood")
	r.Require(len(cx.handlers) >= 5, "floor: %d receive entry points found, expected at least 5 (route advertise/withdraw, node info, sleep, wake)", len(cx.handlers))
	r.Require(len(cx.lits) >= 4, "floor: %d flooded message literals found, expected at least 4", len(cx.lits))
	if len(r.Floors) > 0 {
		return
	}

	for _, h := range cx.handlers {
		hn := kit.FuncName(h)
		pos := p.Pos(h.Pos())
		sinks := c11Sinks(cx, h)
		r.Count("effects_checked", len(sinks))
		nFwd := 0
		for _, s := range sinks {
			if s.kind == "forward" {
				nFwd++
			}
		}
		if nFwd == 0 {
			r.Floor("floor: entry point %s has no forward call", hn)
			continue
		}

		// ---------------- R1
		d := c11FindDedup(cx, h)
		if d == nil {
			msg := "no seen-cache lookup with insertion on the receive path: a duplicated frame is processed and forwarded again"
			if c11SplitDedup(cx, h) {
				msg = "the seen-cache lookup and the insertion live in different functions (hence different critical sections): between a lookup that finds nothing and the insertion, a concurrent delivery of the same frame also finds nothing, and both are processed and forwarded"
			}
			r.Violation("C11.R1", hn+" dedup", pos, "%s", msg)
		} else {
			dpos := p.Pos(d.probe.Pos())
			// one key
			sameKey := d.keyVal == d.insert.Key || c11SameLoad(d.keyVal, d.insert.Key)
			// insertion only when not found
			insGuard := c11NotFoundGuard(d.insert, d)
			// one write-locked region
			li := kit.Locks(d.fn)
			atomic := false
			for _, mu := range li.AnyHeldAt(d.probe) {
				acq, held := li.HeldAt(d.probe, mu)
				if !held || acq == nil {
					continue
				}
				if ci, ok := acq.(ssa.CallInstruction); !ok || kit.CalleeOf(ci).Name != "Lock" {
					continue
				}
				if li.SameRegion(d.probe, d.insert, mu) {
					atomic = true
				}
			}
			r.Decide(sameKey && insGuard, "C11.R1", hn+" dedup test-and-insert", dpos,
				"the cache is probed and filled with one key, the insertion only on the not-found edge",
				"the seen cache is not filled under the probed key on the not-found edge: later copies of the frame are not recognised")
			r.Decide(atomic, "C11.R1", hn+" dedup atomic", dpos,
				"lookup and insertion share one write-locked region",
				"the seen-cache lookup and its insertion are not in one write-locked region: two concurrent deliveries of one frame both pass the test and both are processed and forwarded")
			// helper polarity: which result of the helper means "first sighting (and recorded)"
			polOK := true
			if d.call != nil {
				d.newVal, polOK = c11HelperPolarity(d)
			}
			for _, s := range sinks {
				ok := false
				if d.call == nil {
					ok = c11NotFoundGuard(s.in, d) && !c11ReachSkippingInsert(d, s.in)
				} else {
					ok = polOK && d.res != nil && c11FactHolds(s.in, d.res, d.newVal)
				}
				r.Decide(ok, "C11.R1", hn+" "+s.name+" after first sighting", p.Pos(s.in.Pos()),
					"reached only on the first-sighting edge of the seen cache",
					"this effect is reachable without the seen-cache test having found the frame new (and recorded it): a duplicate delivery is processed or forwarded again")
			}
			// key identity
			c11KeyIdentity(cx, r, h, d, sinks)
		}

		// ---------------- R2
		for _, s := range sinks {
			ok, why := false, "no dominating membership test of the local id in the received seen-by list"
			for _, g := range c11FactsAt(s.in) { // guards, and what admission helpers established
				list, elem, isM := c11Membership(g.cond)
				if !isM {
					continue
				}
				if !c11LoadsField(elem, cx.localID) {
					why = "the membership test at " + p.Pos(g.cond.Pos()) + " does not look for the local id"
					continue
				}
				if !c11RecvListVia(cx, list, g.chain, h) {
					why = "the membership test at " + p.Pos(g.cond.Pos()) + " does not search the received seen-by list"
					continue
				}
				if g.pol {
					why = "the effect lies on the edge where the local id IS in the seen-by list"
					continue
				}
				ok = true
				break
			}
			r.Decide(ok, "C11.R2", hn+" "+s.name+" not already seen-by self", p.Pos(s.in.Pos()),
				"reached only when the local id is not in the received seen-by list",
				why+": once the seen-cache entry has expired, a copy that already passed through this agent is processed and forwarded again")
		}
	}

	// ---------------- R3
	for _, l := range cx.lits {
		v := l.vals["SeenBy"]
		pos := p.Pos(l.alloc.Pos())
		if v == nil {
			r.Violation("C11.R3", l.key()+" SeenBy", pos, "the flooded message is built without a seen-by list: receivers cannot tell who has processed it")
			continue
		}
		hasLocal, hasRecv := false, false
		for _, s := range kit.Slice(v, kit.SliceOpts{Prog: p, FollowParams: true, ParamDepth: 4}) {
			switch s.Kind {
			case kit.SrcField:
				if s.Field == cx.localID {
					hasLocal = true
				}
				if s.Field != nil && s.Field.Name() == "SeenBy" {
					hasRecv = true
				}
			case kit.SrcParam:
				for _, h := range cx.handlers {
					if s.Fn == h && c11IsAgentList(cx, s.Value.Type()) {
						hasRecv = true
					}
				}
			}
		}
		r.Decide(hasLocal, "C11.R3", l.key()+" SeenBy has local id", pos,
			"the local id is part of the seen-by list sent",
			"the seen-by list sent does not contain the local id: neighbours send the frame back and, after cache expiry, it circulates on a cycle forever")
		if cx.reach[l.fn] {
			r.Decide(hasRecv, "C11.R3", l.key()+" SeenBy keeps received list", pos,
				"the received seen-by list is carried on",
				"the forwarded seen-by list drops the agents that already processed the frame: it is delivered to them again and re-processed once their cache entry expired")
		}
	}

	// ---------------- R4
	for _, fn := range cx.floodFns {
		fnn := kit.FuncName(fn)
		var sends []ssa.CallInstruction
		for _, c := range kit.Calls(fn) {
			if _, isSend := c11SendPeer(c); isSend {
				sends = append(sends, c)
			}
		}
		r.Decide(len(sends) == 1, "C11.R4", fnn+" single send", p.Pos(fn.Pos()),
			"exactly one SendToPeer call", fmt.Sprintf("%d SendToPeer calls in the forwarding loop: a peer can receive the same frame more than once per invocation", len(sends)))
		for i, s := range sends {
			key := fmt.Sprintf("%s send #%d", fnn, i+1)
			pos := p.Pos(s.Pos())
			peer, _ := c11SendPeer(s)
			depth := c11LoopDepth(s.Block())
			r.Decide(depth == 1 && c11FromPeerList(peer), "C11.R4", key+" once per peer", pos,
				"inside exactly one loop over GetPeerIDs()",
				fmt.Sprintf("the send is nested in %d loops or its destination is not the GetPeerIDs() element: a peer can receive the frame several times", depth))
			// where a connected peer becomes a destination: the send itself, or the point in a
			// recipient-selecting helper where the peer is appended to the returned list
			selFn, selSite, selPeer, bindOK := c11Selection(cx, fn, s)
			skipSender, skipSeen := false, false
			if selSite != nil && bindOK {
				for _, g := range c11Guards(selSite) {
					if b, ok := g.Cond.(*ssa.BinOp); ok && (b.Op == token.EQL || b.Op == token.NEQ) {
						other := ssa.Value(nil)
						if c11SameLoad(b.X, selPeer) {
							other = b.Y
						} else if c11SameLoad(b.Y, selPeer) {
							other = b.X
						}
						if prm, ok := other.(*ssa.Parameter); ok && prm.Parent() == selFn && c11IsAgentID(cx, prm.Type()) && (b.Op == token.NEQ) == g.Polarity {
							skipSender = true
						}
					}
					if list, elem, ok := c11Membership(g.Cond); ok && !g.Polarity && c11SameLoad(elem, selPeer) {
						if prm, ok := list.(*ssa.Parameter); ok && prm.Parent() == selFn {
							skipSeen = true
						}
					}
				}
				if selFn != fn {
					pos = p.Pos(selSite.Pos())
					if d := c11LoopDepth(selSite.Block()); d != 1 {
						skipSeen, skipSender = false, false
					}
				}
			}
			r.Decide(skipSeen, "C11.R4", key+" skips seen-by members", pos,
				"not sent to peers already in the seen-by list",
				"the frame is also sent to peers that are in its seen-by list: every agent on a cycle gets it back from its successor, the per-link message bound is lost")
			r.Decide(skipSender, "C11.R4", key+" skips the sender", pos,
				"not sent back to the peer it came from",
				"the frame is sent straight back over the link it arrived on whenever the sender is missing from the seen-by list (replays, queued state): twice the messages per link")
		}
	}

	// ---------------- R5
	g4SelfInPath(p, cx, r, "C11.R5")

	// ---------------- R6
	g4SplitHorizon(p, cx, r, "C11.R6")
}

// c11Selection finds, for the send `s` of forwarding function fn, the instruction at which a
// connected peer is chosen as destination: `s` itself when its destination is an element of
// GetPeerIDs(), or — when the destination is an element of the list returned by a flood helper —
// the append in that helper which adds an element of GetPeerIDs() to the result. bindOK is false
// when the helper's sender / seen-by parameters are not fed with fn's own parameters.
func c11Selection(cx *c11Flood, fn *ssa.Function, s ssa.CallInstruction) (*ssa.Function, ssa.Instruction, ssa.Value, bool) {
	peer, _ := c11SendPeer(s)
	list := c11ElemList(peer)
	if list == nil {
		return fn, s, peer, true
	}
	call, ok := list.(*ssa.Call)
	if !ok {
		return fn, s, peer, true
	}
	cal := kit.CalleeOf(call)
	if cal.Static == nil || cal.Static.Blocks == nil || kit.FuncPkgPath(cal.Static) != kit.PkgPath(c11FloodPkg) {
		return fn, s, peer, true // GetPeerIDs() itself or an opaque call: judged at the send
	}
	h := cal.Static
	var site ssa.Instruction
	var chosen ssa.Value
	n := 0
	kit.Instrs(h, func(in ssa.Instruction) {
		c, ok := in.(*ssa.Call)
		if !ok || kit.CalleeOf(c).Built != "append" || len(c.Call.Args) != 2 || !c11IsAgentList(cx, c.Type()) {
			return
		}
		sl, ok := c.Call.Args[1].(*ssa.Slice)
		if !ok {
			return
		}
		a, ok := sl.X.(*ssa.Alloc)
		if !ok || a.Referrers() == nil {
			return
		}
		for _, ref := range *a.Referrers() {
			ia, ok := ref.(*ssa.IndexAddr)
			if !ok || ia.Referrers() == nil {
				continue
			}
			for _, r2 := range *ia.Referrers() {
				if st, ok := r2.(*ssa.Store); ok && st.Addr == ssa.Value(ia) && c11ElemList(st.Val) != nil && c11FromPeerList(st.Val) {
					site, chosen = c, st.Val
					n++
				}
			}
		}
	})
	if n != 1 {
		return fn, s, peer, true // no (or no unique) selection point in the helper: judged at the send
	}
	// the helper's AgentID / []AgentID parameters must be fed with fn's parameters
	bindOK := true
	for i, prm := range h.Params {
		if i >= len(call.Call.Args) || !(c11IsAgentID(cx, prm.Type()) || c11IsAgentList(cx, prm.Type())) {
			continue
		}
		if i == 0 && h.Signature.Recv() != nil {
			continue
		}
		if ap, ok := call.Call.Args[i].(*ssa.Parameter); !ok || ap.Parent() != fn {
			bindOK = false
		}
	}
	return h, site, chosen, bindOK
}

// c11ElemList: v is a load of an element of a list (list[i]); returns the list value.
func c11ElemList(v ssa.Value) ssa.Value {
	if u, ok := v.(*ssa.UnOp); ok && u.Op == token.MUL {
		if ia, ok := u.X.(*ssa.IndexAddr); ok {
			return ia.X
		}
	}
	if ix, ok := v.(*ssa.Index); ok {
		return ix.X
	}
	return nil
}

// c11SplitDedup: the entry point (with its flood callees) both probes and fills a seen cache, but
// never in one function.
func c11SplitDedup(cx *c11Flood, h *ssa.Function) bool {
	look, ins := false, false
	fns := []*ssa.Function{h}
	for _, c := range kit.Calls(h) {
		if cal := kit.CalleeOf(c); cal.Static != nil && kit.FuncPkgPath(cal.Static) == kit.PkgPath(c11FloodPkg) && !cx.reach[cal.Static] {
			fns = append(fns, cal.Static)
		}
	}
	for _, fn := range fns {
		kit.Instrs(fn, func(in ssa.Instruction) {
			switch x := in.(type) {
			case *ssa.Lookup:
				if f, _ := kit.LoadedField(x.X); f != nil && cx.seenMaps[f] {
					look = true
				}
			case *ssa.MapUpdate:
				if f, _ := kit.LoadedField(x.Map); f != nil && cx.seenMaps[f] {
					ins = true
				}
			}
		})
	}
	return look && ins
}

// c11ExtractOf returns the Extract of index idx of a tuple-valued instruction.
func c11ExtractOf(v ssa.Value, idx int) ssa.Value {
	if v.Referrers() == nil {
		return nil
	}
	for _, r := range *v.Referrers() {
		if e, ok := r.(*ssa.Extract); ok && e.Index == idx {
			return e
		}
	}
	return nil
}

// c11HelperPolarity decides which boolean result of the dedup helper means "not seen before, now
// recorded". Accepted result forms: constants, and the lookup's ok value (possibly negated).
func c11HelperPolarity(d *c11Dedup) (newVal bool, ok bool) {
	// the helper may return several values (first sender, cache size, fresh): try every boolean
	// result; the one whose values separate "recorded as new" from "found" is the verdict
	rs := d.fn.Signature.Results()
	for i := 0; i < rs.Len(); i++ {
		if b, isB := rs.At(i).Type().Underlying().(*types.Basic); !isB || b.Kind() != types.Bool {
			continue
		}
		nv, good := c11HelperPolarityAt(d, i)
		if !good {
			continue
		}
		d.resIdx = i
		d.res = nil
		if d.call != nil {
			if rs.Len() == 1 {
				d.res = d.call
			} else {
				d.res = c11ExtractOf(d.call, i)
			}
		}
		return nv, d.call == nil || d.res != nil
	}
	return false, false
}

func c11HelperPolarityAt(d *c11Dedup, idx int) (newVal bool, ok bool) {
	newSet := map[bool]bool{}
	oldSet := map[bool]bool{}
	for _, ret := range kit.Returns(d.fn) {
		if ret.Block() == d.fn.Recover {
			continue
		}
		if len(ret.Results) <= idx {
			return false, false
		}
		v := kit.ReturnResult(ret, idx)
		if b, isConst := kit.ConstBool(v); isConst {
			if kit.Precedes(d.insert, ret) {
				newSet[b] = true
			} else {
				oldSet[b] = true
			}
			continue
		}
		c, pol := c11Norm(v, true)
		ft, isTest := d.foundTruth(c)
		if !isTest {
			return false, false
		}
		// result == (ok == pol): "found" yields pol, "not found" yields !pol; the not-found path
		// must pass the insertion before this return
		if c11ReachAvoiding(d, ret) {
			return false, false
		}
		newSet[ft != pol] = true
		oldSet[ft == pol] = true
	}
	if len(newSet) != 1 {
		return false, false
	}
	for b := range newSet {
		newVal = b
	}
	if oldSet[newVal] {
		return false, false
	}
	return newVal, true
}

// c11ReachAvoiding: can ret be reached from the not-found edge of a branch on d.ok without
// executing the insertion?
func c11ReachAvoiding(d *c11Dedup, ret *ssa.Return) bool {
	found := false
	for _, b := range d.fn.Blocks {
		if len(b.Instrs) == 0 {
			continue
		}
		ifi, isIf := b.Instrs[len(b.Instrs)-1].(*ssa.If)
		if !isIf {
			continue
		}
		c, pol := c11Norm(ifi.Cond, true)
		ft, isTest := d.foundTruth(c)
		if !isTest {
			continue
		}
		found = true
		start := b.Succs[1] // the not-found edge
		if (!ft) == pol {
			start = b.Succs[0]
		}
		seen := map[*ssa.BasicBlock]bool{}
		work := []*ssa.BasicBlock{start}
		for len(work) > 0 {
			x := work[len(work)-1]
			work = work[:len(work)-1]
			if seen[x] {
				continue
			}
			seen[x] = true
			blocked := false
			for _, in := range x.Instrs {
				if in == ssa.Instruction(d.insert) {
					blocked = true
					break
				}
				if in == ssa.Instruction(ret) {
					return true
				}
			}
			if !blocked {
				work = append(work, x.Succs...)
			}
		}
	}
	return !found
}

// c11KeyDescs renders the agent-id and the 64-bit components of the dedup key as paths rooted at
// the entry point's parameters ("" when the key is not such a struct).
func c11KeyDescs(cx *c11Flood, d *c11Dedup) (string, string) {
	var keyAgent, keyNum string
	k, ch := c11Reduce(d.keyVal, d.chain)
	var lit *ssa.Alloc
	if ld, ok := k.(*ssa.UnOp); ok && ld.Op == token.MUL {
		lit, _ = ld.X.(*ssa.Alloc)
	} else if a, ok := k.(*ssa.Alloc); ok {
		lit = a
	}
	if lit != nil {
		vals, _ := c11FieldStores(lit)
		for _, v := range vals {
			if c11IsAgentID(cx, v.Type()) {
				keyAgent = c11Desc(v, ch)
			} else if b, ok := v.Type().Underlying().(*types.Basic); ok && b.Kind() == types.Uint64 {
				keyNum = c11Desc(v, ch)
			}
		}
	}
	return keyAgent, keyNum
}

// c11KeyIdentity: the dedup key's (agent, number) are the (OriginAgent, Sequence|CommandID) of the
// message that the handler forwards.
func c11KeyIdentity(cx *c11Flood, r *kit.Report, h *ssa.Function, d *c11Dedup, sinks []c11Sink) {
	hn := kit.FuncName(h)
	pos := cx.p.Pos(d.probe.Pos())
	keyAgent, keyNum := c11KeyDescs(cx, d)
	if keyAgent == "" || keyNum == "" {
		r.Violation("C11.R1", hn+" dedup key", pos, "the seen-cache key is not a struct of an agent id and a 64-bit number built from the received frame: distinct announcements collide or one announcement gets several keys")
		return
	}
	// forwarded literals
	var msgs []string
	ok := true
	n := 0
	for _, la := range c11ForwardedLits(cx, h) {
		l, chain := la.lit, la.chain
		n++
		ag, num := "", ""
		if v := l.vals["OriginAgent"]; v != nil {
			ag = c11Desc(v, chain)
		}
		for _, name := range []string{"Sequence", "CommandID"} {
			if v := l.vals[name]; v != nil {
				num = c11Desc(v, chain)
			}
		}
		if ag != keyAgent || num != keyNum {
			ok = false
			msgs = append(msgs, fmt.Sprintf("%s carries (%s, %s)", l.key(), ag, num))
		}
	}
	sort.Strings(msgs)
	if n == 0 {
		r.Floor("floor: no forwarded message literal reachable from %s", hn)
		return
	}
	r.Decide(ok, "C11.R1", hn+" dedup key", pos,
		fmt.Sprintf("key (%s, %s) is the (origin, number) of the %d forwarded message literal(s)", keyAgent, keyNum, n),
		fmt.Sprintf("the seen-cache key (%s, %s) is not the (origin, number) pair of the forwarded message [%s]: copies of one announcement arriving over different links get different keys and are each processed and forwarded", keyAgent, keyNum, strings.Join(msgs, "; ")))
}

func c11ParamIndex(prm *ssa.Parameter) int {
	for i, q := range prm.Parent().Params {
		if q == prm {
			return i
		}
	}
	return 0
}
