package rules

// A small symbolic resolver for C24: it enumerates the concrete values an SSA value can denote
// across package-local helper calls, locals, struct literals and loops over constant tables
// (slice/array literals), together with the flag conditions under which each alternative
// applies. It never executes code; it follows stores and bindings.

import (
	"go/token"
	"go/types"

	"golang.org/x/tools/go/ssa"

	"mmverify/kit"
)

// c24Frame is one activation in the chain constructor -> helper -> helper.
type c24Frame struct {
	fn     *ssa.Function
	bind   map[ssa.Value]ssa.Value // parameter -> argument value (a value of the parent frame)
	parent *c24Frame
	site   ssa.CallInstruction // call site in the parent frame
}

// c24Cond is a condition attached to an alternative.
type c24Cond struct {
	flag  string // ServerConfig bool flag name, or "" for the empty-token condition
	pol   bool
	empty bool // condition is "TokenHash is empty" (pol says whether it holds)
}

// c24Alt is one concrete alternative of a value.
type c24Alt struct {
	v          ssa.Value
	fr         *c24Frame
	conds      []c24Cond
	infeasible bool
	choice     map[*ssa.Alloc]int64 // rows chosen in constant tables
}

type c24Eval struct {
	cx        *c24Ctx
	intoCalls func(*ssa.Function) bool // step into the results of these package-local callees
	budget    int
}

func (ev *c24Eval) localFn(f *ssa.Function) bool {
	return f != nil && f.Blocks != nil && kit.FuncPkgPath(f) == kit.PkgPath(c24Pkg)
}

// condOf translates a branch fact into a condition, resolving bool parameters through the
// frame chain. known=false: the fact says nothing the rules use.
func (ev *c24Eval) condOf(f kit.G8Fact, fr *c24Frame) (c c24Cond, infeasible, known bool) {
	if ev.cx.isEmptyTokenFact(f) {
		return c24Cond{empty: true, pol: true}, false, true
	}
	if ev.cx.isEmptyTokenFact(kit.G8Fact{V: f.V, Pol: !f.Pol, Nil: f.Nil}) {
		return c24Cond{empty: true, pol: false}, false, true
	}
	if f.Nil {
		return c24Cond{}, false, false
	}
	v := f.V
	for fr != nil {
		if name, ok := ev.cx.flagOf(v); ok {
			return c24Cond{flag: name, pol: f.Pol}, false, true
		}
		if b, ok := kit.ConstBool(v); ok {
			return c24Cond{}, b != f.Pol, false
		}
		// a local bool holding a flag / comparison
		if u, ok := v.(*ssa.UnOp); ok && u.Op == token.MUL {
			if a, ok := u.X.(*ssa.Alloc); ok {
				if st := c24SingleStore(a); st != nil {
					v = st.Val
					continue
				}
			}
		}
		if prm, ok := v.(*ssa.Parameter); ok {
			if arg, bound := fr.bind[prm]; bound {
				v, fr = arg, fr.parent
				continue
			}
		}
		break
	}
	return c24Cond{}, false, false
}

func c24SingleStore(a *ssa.Alloc) *ssa.Store {
	var only *ssa.Store
	if a.Referrers() == nil {
		return nil
	}
	for _, ref := range *a.Referrers() {
		if st, ok := ref.(*ssa.Store); ok && st.Addr == a {
			if only != nil {
				return nil
			}
			only = st
		}
	}
	return only
}

// condsAt: conditions established by the guards dominating block b, plus the edge pred->b.
func (ev *c24Eval) condsAt(b *ssa.BasicBlock, pred *ssa.BasicBlock, fr *c24Frame) (out []c24Cond, infeasible bool) {
	add := func(f kit.G8Fact) {
		c, inf, known := ev.condOf(f, fr)
		if inf {
			infeasible = true
		}
		if known {
			out = append(out, c)
		}
	}
	if pred != nil {
		if f, ok := kit.G8EdgeFact(pred, b); ok {
			add(f)
		}
		for _, g := range kit.Guards(pred) {
			add(kit.G8Norm(g.Cond, g.Polarity))
		}
		return
	}
	for _, g := range kit.Guards(b) {
		add(kit.G8Norm(g.Cond, g.Polarity))
	}
	return
}

func c24CopyChoice(ch map[*ssa.Alloc]int64) map[*ssa.Alloc]int64 {
	out := map[*ssa.Alloc]int64{}
	for k, v := range ch {
		out[k] = v
	}
	return out
}

// leaves enumerates the alternatives of v in frame fr.
func (ev *c24Eval) leaves(v ssa.Value, fr *c24Frame, alt c24Alt, depth int, out func(c24Alt)) {
	ev.budget--
	if ev.budget < 0 || depth > 24 {
		alt.v, alt.fr = v, fr
		out(alt)
		return
	}
	emit := func(x ssa.Value) {
		a := alt
		a.v, a.fr = x, fr
		out(a)
	}
	switch x := v.(type) {
	case *ssa.ChangeType:
		ev.leaves(x.X, fr, alt, depth+1, out)
	case *ssa.MakeInterface:
		ev.leaves(x.X, fr, alt, depth+1, out)
	case *ssa.ChangeInterface:
		ev.leaves(x.X, fr, alt, depth+1, out)
	case *ssa.Parameter:
		if fr != nil {
			if arg, ok := fr.bind[x]; ok {
				ev.leaves(arg, fr.parent, alt, depth+1, out)
				return
			}
		}
		emit(v)
	case *ssa.Phi:
		for i, e := range x.Edges {
			cs, inf := ev.condsAt(x.Block(), x.Block().Preds[i], fr)
			a := alt
			a.conds = append(append([]c24Cond{}, alt.conds...), cs...)
			a.infeasible = alt.infeasible || inf
			ev.leaves(e, fr, a, depth+1, out)
		}
	case *ssa.UnOp:
		if x.Op == token.MUL {
			ev.read(x.X, nil, fr, alt, depth+1, out)
			return
		}
		emit(v)
	case *ssa.Field:
		fld := kit.FieldOfAddr(x)
		ev.fieldOfValue(x.X, fld, fr, alt, depth+1, out)
	case *ssa.Extract:
		emit(v)
	case *ssa.Call:
		cal := kit.CalleeOf(x)
		if ev.intoCalls != nil && ev.localFn(cal.Static) && ev.intoCalls(cal.Static) && depth < 16 {
			nf := &c24Frame{fn: cal.Static, bind: map[ssa.Value]ssa.Value{}, parent: fr, site: x}
			for i, a := range x.Call.Args {
				if i < len(cal.Static.Params) {
					nf.bind[cal.Static.Params[i]] = a
				}
			}
			for _, ret := range kit.Returns(cal.Static) {
				if ret.Block() == cal.Static.Recover || len(ret.Results) == 0 {
					continue
				}
				cs, inf := ev.condsAt(ret.Block(), nil, nf)
				a := alt
				a.conds = append(append([]c24Cond{}, alt.conds...), cs...)
				a.infeasible = alt.infeasible || inf
				ev.leaves(kit.ReturnResult(ret, 0), nf, a, depth+1, out)
			}
			return
		}
		emit(v)
	default:
		emit(v)
	}
}

// read enumerates the values stored at address addr (field fld of it when fld != nil).
func (ev *c24Eval) read(addr ssa.Value, fld *types.Var, fr *c24Frame, alt c24Alt, depth int, out func(c24Alt)) {
	ev.budget--
	if ev.budget < 0 || depth > 24 {
		return
	}
	switch a := addr.(type) {
	case *ssa.Alloc:
		ev.readObject(a, fld, fr, alt, depth, out)
	case *ssa.FieldAddr:
		f2 := kit.FieldOfAddr(a)
		if fld != nil {
			// field of a nested struct field: not needed by the shapes analysed
			x := alt
			x.v, x.fr = addr, fr
			out(x)
			return
		}
		ev.read(a.X, f2, fr, alt, depth+1, out)
	case *ssa.IndexAddr:
		ev.elements(a.X, a.Index, fr, alt, depth+1, func(el c24Alt) {
			// el.v is the address of one table row (an IndexAddr with a constant index)
			ev.readObject(el.v, fld, el.fr, el, depth+1, out)
		})
	case *ssa.Parameter:
		if fr != nil {
			if arg, ok := fr.bind[a]; ok {
				ev.read(arg, fld, fr.parent, alt, depth+1, out)
				return
			}
		}
		x := alt
		x.v, x.fr = addr, fr
		out(x)
	case *ssa.Global:
		// package-level table: its initialiser
		if st := ev.cx.globalInitStore(a); st != nil {
			if fld == nil {
				ev.leaves(st.Val, nil, alt, depth+1, out)
				return
			}
		}
		x := alt
		x.v, x.fr = addr, fr
		out(x)
	default:
		x := alt
		x.v, x.fr = addr, fr
		out(x)
	}
}

// readObject enumerates what is stored in the object at address obj (an Alloc or a constant
// table row): whole stores and, for a field, the stores into that field's address.
func (ev *c24Eval) readObject(obj ssa.Value, fld *types.Var, fr *c24Frame, alt c24Alt, depth int, out func(c24Alt)) {
	n := 0
	if refs := obj.Referrers(); refs != nil {
		for _, ref := range *refs {
			switch r := ref.(type) {
			case *ssa.Store:
				if r.Addr != obj {
					continue
				}
				n++
				if fld == nil {
					ev.leaves(r.Val, fr, alt, depth+1, out)
				} else {
					ev.fieldOfValue(r.Val, fld, fr, alt, depth+1, out)
				}
			case *ssa.FieldAddr:
				if fld == nil || r.X != obj || kit.FieldOfAddr(r) != fld || r.Referrers() == nil {
					continue
				}
				for _, ref2 := range *r.Referrers() {
					if st, ok := ref2.(*ssa.Store); ok && st.Addr == r {
						n++
						ev.leaves(st.Val, fr, alt, depth+1, out)
					}
				}
			}
		}
	}
	if n == 0 {
		x := alt
		x.v, x.fr = obj, fr
		out(x)
	}
}

// fieldOfValue: field fld of a struct value v.
func (ev *c24Eval) fieldOfValue(v ssa.Value, fld *types.Var, fr *c24Frame, alt c24Alt, depth int, out func(c24Alt)) {
	switch x := v.(type) {
	case *ssa.UnOp:
		if x.Op == token.MUL {
			ev.read(x.X, fld, fr, alt, depth+1, out)
			return
		}
	case *ssa.Parameter:
		if fr != nil {
			if arg, ok := fr.bind[x]; ok {
				ev.fieldOfValue(arg, fld, fr.parent, alt, depth+1, out)
				return
			}
		}
	case *ssa.Phi:
		for _, e := range x.Edges {
			ev.fieldOfValue(e, fld, fr, alt, depth+1, out)
		}
		return
	}
	a := alt
	a.v, a.fr = v, fr
	out(a)
}

// elements enumerates the element values of the array/slice base at index idx: a constant
// index selects one row, a loop index enumerates every row of the constant table (the choice
// is recorded so that sibling reads in the same iteration see the same row).
func (ev *c24Eval) elements(base ssa.Value, idx ssa.Value, fr *c24Frame, alt c24Alt, depth int, out func(c24Alt)) {
	// resolve base to the backing array allocation
	ev.arrayOf(base, fr, alt, depth, func(arr *ssa.Alloc, afr *c24Frame, a2 c24Alt) {
		rows := map[int64][]ssa.Value{}
		if arr.Referrers() != nil {
			for _, ref := range *arr.Referrers() {
				ia, ok := ref.(*ssa.IndexAddr)
				if !ok || ia.X != arr {
					continue
				}
				if k, isK := kit.ConstInt(ia.Index); isK {
					rows[k] = append(rows[k], ia)
				}
			}
		}
		pick := func(k int64) {
			for _, rowAddr := range rows[k] {
				x := a2
				x.choice = c24CopyChoice(a2.choice)
				x.choice[arr] = k
				x.v, x.fr = rowAddr, afr
				out(x)
			}
		}
		if k, isK := kit.ConstInt(idx); isK {
			pick(k)
			return
		}
		if k, chosen := a2.choice[arr]; chosen {
			pick(k)
			return
		}
		for k := int64(0); k < int64(len(rows))+8; k++ {
			if _, ok := rows[k]; ok {
				pick(k)
			}
		}
	})
}

// arrayOf resolves a slice/array value to the array allocation behind it.
func (ev *c24Eval) arrayOf(v ssa.Value, fr *c24Frame, alt c24Alt, depth int, out func(*ssa.Alloc, *c24Frame, c24Alt)) {
	if depth > 24 {
		return
	}
	switch x := v.(type) {
	case *ssa.Alloc:
		if _, ok := x.Type().Underlying().(*types.Pointer).Elem().Underlying().(*types.Array); ok {
			out(x, fr, alt)
			return
		}
		// a local holding the slice
		if st := c24SingleStore(x); st != nil {
			ev.arrayOf(st.Val, fr, alt, depth+1, out)
		}
	case *ssa.Slice:
		ev.arrayOf(x.X, fr, alt, depth+1, out)
	case *ssa.Parameter:
		if fr != nil {
			if arg, ok := fr.bind[x]; ok {
				ev.arrayOf(arg, fr.parent, alt, depth+1, out)
			}
		}
	case *ssa.UnOp:
		if x.Op != token.MUL {
			return
		}
		switch a := x.X.(type) {
		case *ssa.Alloc:
			if st := c24SingleStore(a); st != nil {
				ev.arrayOf(st.Val, fr, alt, depth+1, out)
			}
		case *ssa.Global:
			if st := ev.cx.globalInitStore(a); st != nil {
				ev.arrayOf(st.Val, nil, alt, depth+1, out)
			}
		}
	case *ssa.Phi:
		for _, e := range x.Edges {
			ev.arrayOf(e, fr, alt, depth+1, out)
		}
	}
}

// globalInitStore: the single store into package variable g made by the package initialiser.
func (cx *c24Ctx) globalInitStore(g *ssa.Global) *ssa.Store {
	if g.Pkg == nil {
		return nil
	}
	initFn := g.Pkg.Func("init")
	if initFn == nil {
		return nil
	}
	var only *ssa.Store
	n := 0
	kit.Instrs(initFn, func(in ssa.Instruction) {
		if st, ok := in.(*ssa.Store); ok && st.Addr == g {
			only = st
			n++
		}
	})
	if n != 1 {
		return nil
	}
	return only
}

// constStrings: the constant strings v can denote (with the table rows chosen).
func (ev *c24Eval) constStrings(v ssa.Value, fr *c24Frame, alt c24Alt) (out []c24Alt, allConst bool) {
	allConst = true
	ev.leaves(v, fr, alt, 0, func(a c24Alt) {
		if _, ok := kit.ConstString(a.v); !ok {
			allConst = false
		}
		out = append(out, a)
	})
	return
}
