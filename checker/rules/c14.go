package rules

import (
	"fmt"
	"go/token"
	"go/types"
	"sort"
	"strings"

	"golang.org/x/tools/go/ssa"

	"mmverify/kit"
)

func init() {
	register(&Check{
		ID: "C14", Level: "other", Patterns: []string{"./internal/flood"},
		Technique: "provenance of the Sequence and OriginAgent fields of every announcement literal (backward slices, guards, parameters resolved along the call chain)",
		Explain: "Decides, at every construction of a flooded announcement that has OriginAgent and Sequence fields, that a sequence number drawn from this agent's own counters (routing.Manager's sequence counter, Flooder's node-info counter) is only issued in this agent's own name, and that a forwarded announcement carries exactly the (origin, sequence) it was received with. " +
			"Together with the table update rule (newer sequence from the same origin always replaces: C10.R1) this is what lets an origin's next announcement refresh every receiver. Delivery itself (liveness) is not decided.",
		Run: runC14,
		SelfTests: []SelfTest{
			{Name: "node-info replay numbered with the local counter", ExpectRule: "C14.R1", ExpectKey: "full-table replay NodeInfoAdvertise", Edits: []Edit{
				{File: "internal/flood/flood.go", Old: "\t\t\tSequence:    entry.Sequence,\n", New: "\t\t\tSequence:    f.nodeInfoSeq,\n"},
			}},
			{Name: "forwarded advertisement renumbered with the local counter", ExpectRule: "C14.R1", ExpectKey: "floodAdvertisementEncrypted", Edits: []Edit{
				{File: "internal/flood/flood.go", Old: "\t\tOriginDisplayName: fwdDisplayName,\n\t\tSequence:          sequence,\n", New: "\t\tOriginDisplayName: fwdDisplayName,\n\t\tSequence:          f.routeMgr.IncrementSequence(),\n"},
			}},
			{Name: "forwarded withdrawal bumps the sequence", ExpectRule: "C14.R2", ExpectKey: "floodWithdrawal", Edits: []Edit{
				{File: "internal/flood/flood.go", Old: "\twithdraw := &protocol.RouteWithdraw{\n\t\tOriginAgent: originAgent,\n\t\tSequence:    sequence,\n\t\tRoutes:      routes,\n\t\tSeenBy:      seenBy,", New: "\twithdraw := &protocol.RouteWithdraw{\n\t\tOriginAgent: originAgent,\n\t\tSequence:    sequence + 1,\n\t\tRoutes:      routes,\n\t\tSeenBy:      seenBy,"},
			}},
			{Name: "forwarded node info re-issued in the forwarder's name", ExpectRule: "C14.R2", ExpectKey: "floodNodeInfoEncrypted", Edits: []Edit{
				{File: "internal/flood/flood.go", Old: "\tadv := &protocol.NodeInfoAdvertise{\n\t\tOriginAgent: originAgent,\n\t\tSequence:    sequence,\n\t\tEncInfo:     encInfo,\n\t\tSeenBy:      seenBy,", New: "\tadv := &protocol.NodeInfoAdvertise{\n\t\tOriginAgent: fromPeer,\n\t\tSequence:    sequence,\n\t\tEncInfo:     encInfo,\n\t\tSeenBy:      seenBy,"},
			}},
			{Name: "per-origin forward rate limiter armed by any copy (seed C14-a)", ExpectRule: "C14.R3", ExpectKey: "HandleRouteAdvertise", Edits: []Edit{
				{File: "internal/flood/flood.go", Old: "\tseenCache map[AdvertisementKey]*SeenAdvertisement\n", New: "\tseenCache map[AdvertisementKey]*SeenAdvertisement\n\tlastFlood map[identity.AgentID]time.Time\n"},
				{File: "internal/flood/flood.go", Old: "\tnewSeenBy := append(seenBy, f.localID)\n\tf.floodAdvertisementEncrypted(", New: "\tif !f.floodDue(originAgent) {\n\t\treturn true\n\t}\n\tnewSeenBy := append(seenBy, f.localID)\n\tf.floodAdvertisementEncrypted("},
				{File: "internal/flood/flood.go", Old: "// HandleRouteWithdraw processes an incoming ROUTE_WITHDRAW frame.", New: "func (f *Flooder) floodDue(origin identity.AgentID) bool {\n\tnow := time.Now()\n\tf.mu.Lock()\n\tdefer f.mu.Unlock()\n\tif f.lastFlood == nil {\n\t\tf.lastFlood = map[identity.AgentID]time.Time{}\n\t}\n\tif last, ok := f.lastFlood[origin]; ok && now.Sub(last) < f.cfg.FloodInterval {\n\t\treturn false\n\t}\n\tf.lastFlood[origin] = now\n\treturn true\n}\n\n// HandleRouteWithdraw processes an incoming ROUTE_WITHDRAW frame."},
			}},
			{Name: "announcements older than the highest sequence seen from the origin dropped before the mark", ExpectRule: "C14.R3", ExpectKey: "HandleRouteAdvertise", Edits: []Edit{
				{File: "internal/flood/flood.go", Old: "\tseenCache map[AdvertisementKey]*SeenAdvertisement\n", New: "\tseenCache map[AdvertisementKey]*SeenAdvertisement\n\thighest   map[identity.AgentID]uint64\n"},
				{File: "internal/flood/flood.go", Old: "\t// Check if we've already seen this and mark as seen atomically\n\tf.mu.Lock()\n\tif existing, ok := f.seenCache[key]; ok {", New: "\t// Check if we've already seen this and mark as seen atomically\n\tf.mu.Lock()\n\tif f.highest == nil {\n\t\tf.highest = map[identity.AgentID]uint64{}\n\t}\n\tif sequence < f.highest[originAgent] {\n\t\tf.mu.Unlock()\n\t\treturn false\n\t}\n\tf.highest[originAgent] = sequence\n\tif existing, ok := f.seenCache[key]; ok {"},
			}},
			{Name: "advertisement not forwarded when no table changed (seed C14-d)", ExpectRule: "C14.R3", ExpectKey: "HandleRouteAdvertise", Edits: []Edit{
				{File: "internal/flood/flood.go", Old: "\tif len(cidrEntries) > 0 {\n\t\tf.routeMgr.ProcessRouteAdvertise(fromPeer, originAgent, sequence, cidrEntries, path, encPath)\n\t}\n", New: "\tupdated := 0\n\tif len(cidrEntries) > 0 {\n\t\tupdated += len(f.routeMgr.ProcessRouteAdvertise(fromPeer, originAgent, sequence, cidrEntries, path, encPath))\n\t}\n\tif updated == 0 && len(domainEntries) == 0 {\n\t\treturn true\n\t}\n"},
			}},
			{Name: "withdrawals not forwarded while a wake command is pending", ExpectRule: "C14.R3", ExpectKey: "HandleRouteWithdraw", Edits: []Edit{
				{File: "internal/flood/flood.go", Old: "\t// Flood withdrawal to other peers\n", New: "\tf.pendingWakeMu.RLock()\n\tbusy := f.pendingWakeCmd != nil\n\tf.pendingWakeMu.RUnlock()\n\tif busy {\n\t\treturn true\n\t}\n\t// Flood withdrawal to other peers\n"},
			}},
			{Name: "node info forwarded only when the seen cache is small", ExpectRule: "C14.R3", ExpectKey: "HandleNodeInfoAdvertise", Edits: []Edit{
				{File: "internal/flood/flood.go", Old: "\t// Flood to other peers (forward encrypted data as-is)\n\tnewSeenBy := append(seenBy, f.localID)\n\tf.floodNodeInfoEncrypted(", New: "\tif f.NodeInfoSeenCacheSize() > 512 {\n\t\treturn true\n\t}\n\t// Flood to other peers (forward encrypted data as-is)\n\tnewSeenBy := append(seenBy, f.localID)\n\tf.floodNodeInfoEncrypted("},
			}},
			{Name: "local counter follows observed sequence numbers (seed C14-b)", ExpectRule: "C14.R4", ExpectKey: "ObserveSequence", Edits: []Edit{
				{File: "internal/routing/manager.go", Old: "// RouteEntry is a simplified route for advertisements.", New: "func (m *Manager) ObserveSequence(seq uint64) {\n\tm.mu.Lock()\n\tdefer m.mu.Unlock()\n\tif seq > m.sequence {\n\t\tm.sequence = seq\n\t}\n}\n\n// RouteEntry is a simplified route for advertisements."},
				{File: "internal/flood/flood.go", Old: "\t// Store display name for origin agent.\n", New: "\tf.routeMgr.ObserveSequence(sequence)\n\n\t// Store display name for origin agent.\n"},
			}},
			{Name: "node-info counter resynchronised from a received sequence", ExpectRule: "C14.R4", ExpectKey: "nodeInfoSeq", Edits: []Edit{
				{File: "internal/flood/flood.go", Old: "\t// Store the node info in the routing manager (handles decryption if possible)\n", New: "\tif originAgent == f.localID {\n\t\tf.nodeInfoMu.Lock()\n\t\tf.nodeInfoSeq = sequence\n\t\tf.nodeInfoMu.Unlock()\n\t}\n\t// Store the node info in the routing manager (handles decryption if possible)\n"},
			}},
			{Name: "rewrite: forward skipped only by immutable configuration, counter bumped by two", Edits: []Edit{
				{File: "internal/flood/flood.go", Old: "\t// Flood withdrawal to other peers\n", New: "\tif f.cfg.MaxSeenCacheSize < 0 {\n\t\treturn true\n\t}\n\t// Flood withdrawal to other peers\n"},
				{File: "internal/routing/manager.go", Old: "\tdefer m.mu.Unlock()\n\tm.sequence++\n\treturn m.sequence\n", New: "\tdefer m.mu.Unlock()\n\tm.sequence = 2 + m.sequence\n\treturn m.sequence\n"},
			}},
			{Name: "rewrite: replay draws the counter only for the own origin, stored sequence otherwise", Edits: []Edit{
				{File: "internal/flood/flood.go", Old: "\t\t\t\tOriginDisplayName: originDisplayName,\n\t\t\t\tSequence:          f.routeMgr.IncrementSequence(),\n", New: "\t\t\t\tOriginDisplayName: originDisplayName,\n\t\t\t\tSequence:          seq,\n"},
				{File: "internal/flood/flood.go", Old: "\t\t// One advertisement carries at most maxRoutesPerMessage routes (one-byte count).\n\t\tfor start := 0; start < len(routes); start += maxRoutesPerMessage {\n\t\t\tend := start + maxRoutesPerMessage\n\t\t\tif end > len(routes) {\n\t\t\t\tend = len(routes)\n\t\t\t}\n\n\t\t\tadv := &protocol.RouteAdvertise{\n\t\t\t\tOriginAgent:       originAgent,", New: "\t\tvar seq uint64\n\t\tif originAgent == f.localID {\n\t\t\tseq = f.routeMgr.IncrementSequence()\n\t\t} else {\n\t\t\tfor _, sr := range cidrRoutes {\n\t\t\t\tif sr.Sequence > seq {\n\t\t\t\t\tseq = sr.Sequence\n\t\t\t\t}\n\t\t\t}\n\t\t}\n\t\t// One advertisement carries at most maxRoutesPerMessage routes (one-byte count).\n\t\tfor start := 0; start < len(routes); start += maxRoutesPerMessage {\n\t\t\tend := start + maxRoutesPerMessage\n\t\t\tif end > len(routes) {\n\t\t\t\tend = len(routes)\n\t\t\t}\n\n\t\t\tadv := &protocol.RouteAdvertise{\n\t\t\t\tOriginAgent:       originAgent,"},
			}},
			{Name: "rewrite: forwarded advertisement built in a helper", Edits: []Edit{
				{File: "internal/flood/flood.go", Old: "\twithdraw := &protocol.RouteWithdraw{\n\t\tOriginAgent: originAgent,\n\t\tSequence:    sequence,\n\t\tRoutes:      routes,\n\t\tSeenBy:      seenBy,\n\t}\n", New: "\twithdraw := buildWithdraw(sequence, originAgent, routes, seenBy)\n"},
				{File: "internal/flood/flood.go", Old: "// SetLocalDisplayName updates the local display name used in route advertisements.", New: "func buildWithdraw(n uint64, who identity.AgentID, routes []protocol.Route, seenBy []identity.AgentID) *protocol.RouteWithdraw {\n\treturn &protocol.RouteWithdraw{OriginAgent: who, Sequence: n, Routes: routes, SeenBy: seenBy}\n}\n\n// SetLocalDisplayName updates the local display name used in route advertisements."},
			}},
		},
	})
}

// c14Counters resolves this agent's own sequence counters: the uint64 field of routing.Manager
// that some method increments (and the Manager methods that read or write it), and the uint64
// fields of Flooder.
type c14Counters struct {
	mgrField  *types.Var
	mgrFns    map[*ssa.Function]bool
	floodFlds map[*types.Var]bool
}

func c14FindCounters(p *kit.Program, cx *c11Flood, r *kit.Report) *c14Counters {
	c := &c14Counters{mgrFns: map[*ssa.Function]bool{}, floodFlds: map[*types.Var]bool{}}
	mgr := p.NamedType("internal/routing", "Manager")
	if !r.Require(mgr != nil, "anchor-unresolved: type internal/routing.Manager") {
		return nil
	}
	for _, f := range kit.StructFields(mgr) {
		b, ok := f.Type().Underlying().(*types.Basic)
		if !ok || b.Kind() != types.Uint64 {
			continue
		}
		for _, acc := range p.FieldAccessesOfKind(f, kit.FieldStore) {
			if bo, ok := acc.Val.(*ssa.BinOp); ok && bo.Op == token.ADD {
				c.mgrField = f
			}
		}
	}
	if !r.Require(c.mgrField != nil, "anchor-unresolved: incremented uint64 counter field of routing.Manager") {
		return nil
	}
	for _, acc := range p.FieldAccesses(c.mgrField) {
		c.mgrFns[kit.TopLevel(acc.Fn)] = true
	}
	for _, f := range kit.StructFields(cx.flooder) {
		if b, ok := f.Type().Underlying().(*types.Basic); ok && b.Kind() == types.Uint64 {
			c.floodFlds[f] = true
		}
	}
	return c
}

// c14CounterReads returns the instructions in the backward slice of v that read one of the
// agent's own counters.
func c14CounterReads(p *kit.Program, c *c14Counters, v ssa.Value) []ssa.Instruction {
	var out []ssa.Instruction
	for _, s := range kit.Slice(v, kit.SliceOpts{Prog: p, FollowParams: true, ParamDepth: 4}) {
		switch s.Kind {
		case kit.SrcCall:
			if s.Call == nil {
				continue
			}
			if cal := kit.CalleeOf(s.Call); cal.Static != nil && c.mgrFns[cal.Static] {
				out = append(out, s.Call)
			}
		case kit.SrcField:
			if s.Field == c.mgrField || c.floodFlds[s.Field] {
				if in, ok := s.Value.(ssa.Instruction); ok {
					out = append(out, in)
				}
			}
		}
	}
	return out
}

func runC14(p *kit.Program, r *kit.Report) {
	r.Rule("C14.R1", "a Sequence drawn from this agent's own counter is placed only in an announcement whose OriginAgent is the local id (or the counter is read only under an origin == local id guard)")
	r.Rule("C14.R3", "forwarding (and storing) of an announcement is not suppressed by mutable flooder state: apart from the seen-cache test itself, no branch of a receive entry point that skips the forward call may read (directly or in the flood functions it calls) a Flooder field that is written after construction — such state can be set by a relayed replay (the self-in-seen-by test and immutable configuration are fine)")
	r.Rule("C14.R4", "the agent's own sequence counters have a single kind of writer: every store to routing.Manager's counter (and to the uint64 counters of Flooder) is an increment of that same field by a positive constant — never a value derived from received data")
	r.Rule("C14.R2", "a forwarded announcement carries the OriginAgent and the Sequence/CommandID received by the entry point, unchanged")
	cx := newC11Flood(p, r)
	if cx == nil {
		return
	}
	ctr := c14FindCounters(p, cx, r)
	if ctr == nil {
		return
	}
	r.Count("manager_functions_touching_the_counter", len(ctr.mgrFns))

	// ---------------- R1
	n := 0
	nLocal := 0
	replayOrd := map[string]int{}
	for _, l := range cx.lits {
		seq, hasSeq := l.vals["Sequence"]
		if c11HasField(l.typ, "Sequence") == nil || c11HasField(l.typ, "OriginAgent") == nil {
			continue
		}
		n++
		key := l.key() + " Sequence"
		pos := p.Pos(l.alloc.Pos())
		oa := l.vals["OriginAgent"]
		// a replay (built outside the forwarding chain, in another agent's name) is keyed by its
		// role, so that the construct keeps its key when the literal moves into a helper
		if oa != nil && !cx.reach[l.fn] && !c12FromHandler(cx, l) {
			own := true
			for _, a := range c11Resolve(p, oa) {
				if !c11LoadsField(a, cx.localID) {
					own = false
				}
			}
			if !own {
				replayOrd[l.typ.Obj().Name()]++
				key = fmt.Sprintf("full-table replay %s literal Sequence", l.typ.Obj().Name()) // no ordinal: stable when helpers are split off; a second such literal gets the report's "#2" suffix
			}
		}
		if !hasSeq || oa == nil {
			r.Violation("C14.R1", key, pos, "the announcement is built without an origin or a sequence number: receivers file it under (zero id, 0) and reject it as a duplicate or as older")
			continue
		}
		reads := c14CounterReads(p, ctr, seq)
		if len(reads) == 0 {
			r.OK("C14.R1", key, pos, "sequence does not come from a local counter (received or stored value)")
			continue
		}
		nLocal++
		ownName := true
		for _, a := range c11Resolve(p, oa) {
			if !c11LoadsField(a, cx.localID) {
				ownName = false
			}
		}
		guarded := true
		if !ownName {
			for _, rd := range reads {
				g := false
				if rd.Parent() == l.fn {
					for _, gd := range c11Guards(rd) {
						b, ok := gd.Cond.(*ssa.BinOp)
						if !ok || !((b.Op == token.EQL && gd.Polarity) || (b.Op == token.NEQ && !gd.Polarity)) {
							continue
						}
						if (c11SameLoad(b.X, oa) && c11LoadsField(b.Y, cx.localID)) || (c11SameLoad(b.Y, oa) && c11LoadsField(b.X, cx.localID)) {
							g = true
						}
					}
				}
				if !g {
					guarded = false
				}
			}
		}
		r.Decide(ownName || guarded, "C14.R1", key, pos,
			"the local counter numbers only announcements issued in the local agent's name",
			"the announcement names another agent as origin but is numbered from this agent's own counter: a receiver stores that origin's routes (and seen-cache key) under a sequence the origin has not reached, rejects the origin's genuine announcements as older until it catches up, and lets the routes expire")
	}
	r.Count("announcement_literals", n)
	r.Count("announcement_literals_numbered_locally", nLocal)
	r.Require(n >= 3, "floor: %d announcement literals with OriginAgent and Sequence found, expected at least 3", n)
	r.Require(nLocal >= 3, "floor: %d announcement literals numbered from a local counter, expected at least 3", nLocal)

	// ---------------- R2
	nFwd := 0
	for _, h := range cx.handlers {
		hn := kit.FuncName(h)
		keyAgent, keyNum := "", ""
		if d := c11FindDedup(cx, h); d != nil {
			keyAgent, keyNum = c11KeyDescs(cx, d)
		}
		for _, la := range c11ForwardedLits(cx, h) {
			l, chain := la.lit, la.chain
			nFwd++
			for _, name := range []string{"OriginAgent", "Sequence", "CommandID"} {
				if c11HasField(l.typ, name) == nil {
					continue
				}
				key := fmt.Sprintf("%s %s via %s", l.key(), name, hn)
				pos := p.Pos(l.alloc.Pos())
				v := l.vals[name]
				if v == nil {
					r.Violation("C14.R2", key, pos, "the forwarded message leaves %s at its zero value", name)
					continue
				}
				d := c11Desc(v, chain)
				ok := strings.HasPrefix(d, hn+"#") && !strings.Contains(d, "@") && !strings.Contains(d, "const ")
				if rest := strings.TrimPrefix(d, hn+"#"); ok && strings.Contains(rest, ".") {
					ok = rest[strings.Index(rest, ".")+1:] == name
				}
				// the received (origin, number) are the values the entry point dedups on
				if want := map[string]string{"OriginAgent": keyAgent, "Sequence": keyNum, "CommandID": keyNum}[name]; ok && want != "" && d != want {
					ok = false
				}
				r.Decide(ok, "C14.R2", key, pos,
					"forwarded unchanged from the received frame ("+d+")",
					fmt.Sprintf("the forwarded %s is not the received one (%s): downstream agents file the announcement under a different (origin, sequence) than the origin issued, so its later announcements do not supersede it", name, d))
			}
		}
	}
	r.Count("forwarded_message_literals", nFwd)
	r.Require(nFwd >= 3, "floor: %d forwarded message literals reachable from the receive entry points, expected at least 3", nFwd)

	// ---------------- R3
	mutable := g4MutableFlooderFields(cx)
	r.Count("mutable_flooder_fields", len(mutable))
	nSkip := 0
	for _, h := range cx.handlers {
		d := c11FindDedup(cx, h)
		if d == nil {
			continue // C11.R1 reports the missing dedup
		}
		hn := kit.FuncName(h)
		for _, sk := range g4SkipBranches(cx, h, d, true) {
			nSkip++
			key := fmt.Sprintf("%s forward-skipping branch #%d", hn, sk.ord)
			pos := g4SkipPos(p, sk)
			var deps []string
			for _, c := range g4SkipConds(cx, h, d, sk, true) {
				var ignore *types.Var
				if c.wraps {
					ignore = d.field // the admission helper legitimately consults the handler's own seen cache
				}
				deps = append(deps, g4MutableStateDeps(cx, mutable, c.v, ignore)...)
			}
			deps = c12Uniq(deps)
			r.Decide(len(deps) == 0, "C14.R3", key, pos,
				"depends only on the frame and on immutable configuration",
				"a first-seen announcement is stored but not forwarded depending on mutable flooder state ("+strings.Join(deps, ", ")+"): a relayed replay of the origin's routes can set that state, so the origin's next genuine announcement is not forwarded and the agents behind this one are never refreshed")
		}
	}
	r.Count("forward_skipping_branches_after_seen_mark", nSkip)

	// ---------------- R4
	counters := []*types.Var{ctr.mgrField}
	for f := range ctr.floodFlds {
		counters = append(counters, f)
	}
	sort.Slice(counters, func(i, j int) bool { return counters[i].Name() < counters[j].Name() })
	for _, f := range counters {
		nW := 0
		for _, acc := range p.FieldAccessesOfKind(f, kit.FieldStore, kit.FieldAddrUse) {
			nW++
			key := fmt.Sprintf("%s writer #%d of counter %s", kit.FuncName(acc.Fn), nW, f.Name())
			ok := false
			if acc.Kind == kit.FieldStore {
				if k, isc := kit.ConstInt(acc.Val); isc && k == 0 {
					ok = true
				}
				if b, isb := c13Strip(acc.Val).(*ssa.BinOp); isb && b.Op == token.ADD {
					if k, isc := kit.ConstInt(b.Y); isc && k >= 1 && c11LoadsField(b.X, f) {
						ok = true
					}
					if k, isc := kit.ConstInt(b.X); isc && k >= 1 && c11LoadsField(b.Y, f) {
						ok = true
					}
				}
			}
			r.Decide(ok, "C14.R4", key, p.Pos(acc.Instr.Pos()),
				"counter := counter + k (k>=1)",
				"the local sequence counter is written with something other than its own increment: if the value follows sequence numbers received from the mesh, full-table replays are stamped with sequence numbers the origin has not issued yet, and the origin's genuine announcement with that number is then ignored as already seen and not forwarded")
		}
		r.Count("writers_of_"+f.Name(), nW)
	}
}
