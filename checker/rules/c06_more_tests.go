package rules

// Self-tests of the round-2 rules of C06 (R3 shared-capacity appends, R4 chunk coverage, R5 sequence per message).
var c06MoreSelfTests = []SelfTest{
	{Name: "marker route appended in place to every chunk", ExpectRule: "C06.R3", ExpectKey: "AnnounceLocalRoutes", Edits: []Edit{
		{File: "internal/flood/flood.go", Old: "\t\t\tRoutes:            routes[start:end],\n\t\t\tPath:              path,    // Keep for backwards compat", New: "\t\t\tRoutes:            append(routes[start:end], protocol.Route{AddressFamily: protocol.AddrFamilyAgent, Prefix: protocol.EncodeAgentPrefix(f.localID)}),\n\t\t\tPath:              path,    // Keep for backwards compat"},
	}},
	{Name: "chunk from a helper extended in place", ExpectRule: "C06.R3", ExpectKey: "WithdrawLocalRoutes", Edits: []Edit{
		{File: "internal/flood/flood.go", Old: "\tfor start := 0; start < len(routes); start += maxRoutesPerMessage {\n\t\tend := start + maxRoutesPerMessage\n\t\tif end > len(routes) {\n\t\t\tend = len(routes)\n\t\t}\n\n\t\twithdraw := &protocol.RouteWithdraw{\n\t\t\tOriginAgent: f.localID,\n\t\t\tSequence:    f.routeMgr.IncrementSequence(),\n\t\t\tRoutes:      routes[start:end],", New: "\tvar chunks [][]protocol.Route\n\tfor start := 0; start < len(routes); start += maxRoutesPerMessage - 1 {\n\t\tchunks = append(chunks, routes[start:min(start+maxRoutesPerMessage-1, len(routes))])\n\t}\n\tfor _, chunk := range chunks {\n\t\twithdraw := &protocol.RouteWithdraw{\n\t\t\tOriginAgent: f.localID,\n\t\t\tSequence:    f.routeMgr.IncrementSequence(),\n\t\t\tRoutes:      append(chunk, routes[0]),"},
	}},
	{Name: "rewrite: marker appended to a full-slice-expression chunk (no shared capacity)", Edits: []Edit{
		{File: "internal/flood/flood.go", Old: "\t\t\tRoutes:            routes[start:end],\n\t\t\tPath:              path,    // Keep for backwards compat", New: "\t\t\tRoutes:            append(routes[start:end:end], protocol.Route{AddressFamily: protocol.AddrFamilyAgent, Prefix: protocol.EncodeAgentPrefix(f.localID)}),\n\t\t\tPath:              path,    // Keep for backwards compat"},
		{File: "internal/flood/flood.go", Old: "const maxRoutesPerMessage = 255", New: "const maxRoutesPerMessage = 254"},
	}},
	{Name: "rewrite: marker appended to a copy of the chunk", Edits: []Edit{
		{File: "internal/flood/flood.go", Old: "\t\t\tRoutes:            routes[start:end],\n\t\t\tPath:              path,    // Keep for backwards compat", New: "\t\t\tRoutes:            append(append(make([]protocol.Route, 0, end-start+1), routes[start:end]...), protocol.Route{AddressFamily: protocol.AddrFamilyAgent, Prefix: protocol.EncodeAgentPrefix(f.localID)}),\n\t\t\tPath:              path,    // Keep for backwards compat"},
		{File: "internal/flood/flood.go", Old: "const maxRoutesPerMessage = 255", New: "const maxRoutesPerMessage = 254"},
	}},
	{Name: "loop step larger than the chunk", ExpectRule: "C06.R4", ExpectKey: "chunk step", Edits: []Edit{
		{File: "internal/flood/flood.go", Old: "\tfor start := 0; start < len(routes); start += maxRoutesPerMessage {\n\t\tend := start + maxRoutesPerMessage\n\t\tif end > len(routes) {\n\t\t\tend = len(routes)\n\t\t}\n\n\t\twithdraw := &protocol.RouteWithdraw{\n\t\t\tOriginAgent: f.localID,\n\t\t\tSequence:    f.routeMgr.IncrementSequence(),\n\t\t\tRoutes:      routes[start:end],", New: "\tfor start := 0; start < len(routes); start += maxRoutesPerMessage + 1 {\n\t\tend := start + maxRoutesPerMessage\n\t\tif end > len(routes) {\n\t\t\tend = len(routes)\n\t\t}\n\n\t\twithdraw := &protocol.RouteWithdraw{\n\t\t\tOriginAgent: f.localID,\n\t\t\tSequence:    f.routeMgr.IncrementSequence(),\n\t\t\tRoutes:      routes[start:end],"},
	}},
	{Name: "chunk loop stops before the last route", ExpectRule: "C06.R4", ExpectKey: "loop exit", Edits: []Edit{
		{File: "internal/flood/flood.go", Old: "\tfor start := 0; start < len(routes); start += maxRoutesPerMessage {\n\t\tend := start + maxRoutesPerMessage\n\t\tif end > len(routes) {\n\t\t\tend = len(routes)\n\t\t}\n\n\t\twithdraw := &protocol.RouteWithdraw{\n\t\t\tOriginAgent: f.localID,\n\t\t\tSequence:    f.routeMgr.IncrementSequence(),\n\t\t\tRoutes:      routes[start:end],", New: "\tfor start := 0; start < len(routes)-1; start += maxRoutesPerMessage {\n\t\tend := start + maxRoutesPerMessage\n\t\tif end > len(routes) {\n\t\t\tend = len(routes)\n\t\t}\n\n\t\twithdraw := &protocol.RouteWithdraw{\n\t\t\tOriginAgent: f.localID,\n\t\t\tSequence:    f.routeMgr.IncrementSequence(),\n\t\t\tRoutes:      routes[start:end],"},
	}},
	{Name: "chunk loop limited to three messages", ExpectRule: "C06.R4", ExpectKey: "loop exit", Edits: []Edit{
		{File: "internal/flood/flood.go", Old: "\tfor start := 0; start < len(routes); start += maxRoutesPerMessage {\n\t\tend := start + maxRoutesPerMessage\n\t\tif end > len(routes) {\n\t\t\tend = len(routes)\n\t\t}\n\n\t\twithdraw := &protocol.RouteWithdraw{", New: "\tfor start := 0; start < len(routes) && start < 3*maxRoutesPerMessage; start += maxRoutesPerMessage {\n\t\tend := start + maxRoutesPerMessage\n\t\tif end > len(routes) {\n\t\t\tend = len(routes)\n\t\t}\n\n\t\twithdraw := &protocol.RouteWithdraw{"},
	}},
	{Name: "withdrawal forwards only a bounded prefix", ExpectRule: "C06.R4", ExpectKey: "truncation", Edits: []Edit{
		{File: "internal/flood/flood.go", Old: "\t\tRoutes:      routes,\n\t\tSeenBy:      seenBy,\n", New: "\t\tRoutes:      routes[:min(len(routes), 200)],\n\t\tSeenBy:      seenBy,\n"},
	}},
	{Name: "one sequence number for all chunks", ExpectRule: "C06.R5", ExpectKey: "WithdrawLocalRoutes", Edits: []Edit{
		{File: "internal/flood/flood.go", Old: "\tfor start := 0; start < len(routes); start += maxRoutesPerMessage {\n\t\tend := start + maxRoutesPerMessage\n\t\tif end > len(routes) {\n\t\t\tend = len(routes)\n\t\t}\n\n\t\twithdraw := &protocol.RouteWithdraw{\n\t\t\tOriginAgent: f.localID,\n\t\t\tSequence:    f.routeMgr.IncrementSequence(),\n\t\t\tRoutes:      routes[start:end],", New: "\tseq := f.routeMgr.IncrementSequence()\n\tfor start := 0; start < len(routes); start += maxRoutesPerMessage {\n\t\tend := start + maxRoutesPerMessage\n\t\tif end > len(routes) {\n\t\t\tend = len(routes)\n\t\t}\n\n\t\twithdraw := &protocol.RouteWithdraw{\n\t\t\tOriginAgent: f.localID,\n\t\t\tSequence:    seq,\n\t\t\tRoutes:      routes[start:end],"},
	}},
	{Name: "rewrite: sequence drawn into a local inside the loop", Edits: []Edit{
		{File: "internal/flood/flood.go", Old: "\tfor start := 0; start < len(routes); start += maxRoutesPerMessage {\n\t\tend := start + maxRoutesPerMessage\n\t\tif end > len(routes) {\n\t\t\tend = len(routes)\n\t\t}\n\n\t\twithdraw := &protocol.RouteWithdraw{\n\t\t\tOriginAgent: f.localID,\n\t\t\tSequence:    f.routeMgr.IncrementSequence(),\n\t\t\tRoutes:      routes[start:end],", New: "\tfor start := 0; start < len(routes); start += maxRoutesPerMessage {\n\t\tend := start + maxRoutesPerMessage\n\t\tif end > len(routes) {\n\t\t\tend = len(routes)\n\t\t}\n\n\t\tseq := f.routeMgr.IncrementSequence()\n\t\twithdraw := &protocol.RouteWithdraw{\n\t\t\tOriginAgent: f.localID,\n\t\t\tSequence:    seq,\n\t\t\tRoutes:      routes[start:end],"},
	}},
	{Name: "rewrite: forwarded routes copied element by element before sending", Edits: []Edit{
		{File: "internal/flood/flood.go", Old: "\twithdraw := &protocol.RouteWithdraw{\n\t\tOriginAgent: originAgent,\n\t\tSequence:    sequence,\n\t\tRoutes:      routes,\n", New: "\tfwd := make([]protocol.Route, 0, len(routes))\n\tfor _, rt := range routes {\n\t\tfwd = append(fwd, rt)\n\t}\n\twithdraw := &protocol.RouteWithdraw{\n\t\tOriginAgent: originAgent,\n\t\tSequence:    sequence,\n\t\tRoutes:      fwd,\n"},
	}},
	{Name: "forwarding loop duplicates every route", ExpectRule: "C06.R1", ExpectKey: "floodWithdrawal", Edits: []Edit{
		{File: "internal/flood/flood.go", Old: "\twithdraw := &protocol.RouteWithdraw{\n\t\tOriginAgent: originAgent,\n\t\tSequence:    sequence,\n\t\tRoutes:      routes,\n", New: "\tfwd := make([]protocol.Route, 0, len(routes))\n\tfor _, rt := range routes {\n\t\tfwd = append(fwd, rt)\n\t\tfwd = append(fwd, rt)\n\t}\n\twithdraw := &protocol.RouteWithdraw{\n\t\tOriginAgent: originAgent,\n\t\tSequence:    sequence,\n\t\tRoutes:      fwd,\n"},
	}},
	{Name: "address family taken from IP.To4 while the prefix length comes from the mask", ExpectRule: "C06.R6", ExpectKey: "ipNetToProtocolRoute", Edits: []Edit{
		{File: "internal/flood/flood.go", Old: "\tones, bits := network.Mask.Size()\n\tfamily := protocol.AddrFamilyIPv4\n\tif bits == 128 {\n\t\tfamily = protocol.AddrFamilyIPv6\n\t}\n", New: "\tones, _ := network.Mask.Size()\n\tfamily := protocol.AddrFamilyIPv4\n\tif network.IP.To4() == nil {\n\t\tfamily = protocol.AddrFamilyIPv6\n\t}\n"},
	}},
	{Name: "address family taken from len(IP) while the prefix length comes from the mask", ExpectRule: "C06.R6", ExpectKey: "ipNetToProtocolRoute", Edits: []Edit{
		{File: "internal/flood/flood.go", Old: "\tones, bits := network.Mask.Size()\n\tfamily := protocol.AddrFamilyIPv4\n\tif bits == 128 {\n\t\tfamily = protocol.AddrFamilyIPv6\n\t}\n", New: "\tones, _ := network.Mask.Size()\n\tfamily := protocol.AddrFamilyIPv4\n\tif len(network.IP) == net.IPv6len {\n\t\tfamily = protocol.AddrFamilyIPv6\n\t}\n"},
	}},
	{Name: "rewrite: address family from the byte length of the mask", Edits: []Edit{
		{File: "internal/flood/flood.go", Old: "\tones, bits := network.Mask.Size()\n\tfamily := protocol.AddrFamilyIPv4\n\tif bits == 128 {\n\t\tfamily = protocol.AddrFamilyIPv6\n\t}\n", New: "\tones, _ := network.Mask.Size()\n\tfamily := protocol.AddrFamilyIPv4\n\tif len(network.Mask) == net.IPv6len {\n\t\tfamily = protocol.AddrFamilyIPv6\n\t}\n"},
	}},
	{Name: "rewrite: address family by a switch on the mask width", Edits: []Edit{
		{File: "internal/flood/flood.go", Old: "\tones, bits := network.Mask.Size()\n\tfamily := protocol.AddrFamilyIPv4\n\tif bits == 128 {\n\t\tfamily = protocol.AddrFamilyIPv6\n\t}\n", New: "\tones, bits := network.Mask.Size()\n\tvar family uint8\n\tswitch bits {\n\tcase 128:\n\t\tfamily = protocol.AddrFamilyIPv6\n\tdefault:\n\t\tfamily = protocol.AddrFamilyIPv4\n\t}\n"},
	}},
}
