package kit

import (
	"go/token"

	"golang.org/x/tools/go/ssa"
)

// ByteRange is a constant sub-range [Lo,Hi) of a root buffer (an array Alloc, a
// slice-typed parameter, a MakeSlice...). Hi == -1 means "to the end".
type ByteRange struct {
	Root   ssa.Value
	Lo, Hi int64
}

// Covers reports whether index i lies in the range.
func (b ByteRange) Covers(i int64) bool { return i >= b.Lo && (b.Hi < 0 || i < b.Hi) }

// AddrRange resolves an address or slice value to (root, lo, hi) through Slice with
// constant bounds and IndexAddr with constant index. ok=false when a bound is not constant.
func AddrRange(v ssa.Value) (ByteRange, bool) {
	lo, hi := int64(0), int64(-1)
	for i := 0; i < 16; i++ {
		switch x := v.(type) {
		case *ssa.Slice:
			l, h := int64(0), int64(-1)
			if x.Low != nil {
				c, ok := ConstInt(x.Low)
				if !ok {
					return ByteRange{}, false
				}
				l = c
			}
			if x.High != nil {
				c, ok := ConstInt(x.High)
				if !ok {
					return ByteRange{}, false
				}
				h = c
			}
			// compose: current (lo,hi) is relative to this slice's result
			nlo := l + lo
			nhi := h
			if hi >= 0 {
				nhi = l + hi
			}
			lo, hi = nlo, nhi
			v = x.X
		case *ssa.IndexAddr:
			c, ok := ConstInt(x.Index)
			if !ok {
				return ByteRange{}, false
			}
			lo, hi = c, c+1
			v = x.X
		case *ssa.Index:
			c, ok := ConstInt(x.Index)
			if !ok {
				return ByteRange{}, false
			}
			lo, hi = c, c+1
			v = x.X
		case *ssa.UnOp:
			// load of an array value: *alloc
			if x.Op == token.MUL {
				if a, ok := x.X.(*ssa.Alloc); ok {
					v = a
					continue
				}
			}
			return ByteRange{Root: v, Lo: lo, Hi: hi}, true
		default:
			return ByteRange{Root: v, Lo: lo, Hi: hi}, true
		}
	}
	return ByteRange{}, false
}

// ExprReads walks the expression tree of v (through arithmetic, comparisons, conversions and
// the arguments of calls) and returns the byte ranges it reads from buffers plus the other
// leaf values (field loads, parameters, constants, ...). Calls are descended into their
// arguments only (treated as pure functions of them); the call values themselves are also
// reported in leaves so a rule can inspect which helpers were used.
func ExprReads(v ssa.Value) (ranges []ByteRange, leaves []ssa.Value) {
	seen := map[ssa.Value]bool{}
	var rec func(x ssa.Value)
	rec = func(x ssa.Value) {
		if x == nil || seen[x] {
			return
		}
		seen[x] = true
		switch t := x.(type) {
		case *ssa.BinOp:
			rec(t.X)
			rec(t.Y)
		case *ssa.UnOp:
			if t.Op == token.MUL {
				switch a := t.X.(type) {
				case *ssa.IndexAddr:
					if r, ok := AddrRange(a); ok {
						ranges = append(ranges, r)
						return
					}
				case *ssa.Alloc:
					ranges = append(ranges, ByteRange{Root: a, Lo: 0, Hi: -1})
					return
				}
				leaves = append(leaves, x)
				return
			}
			rec(t.X)
		case *ssa.Convert:
			rec(t.X)
		case *ssa.ChangeType:
			rec(t.X)
		case *ssa.Phi:
			for _, e := range t.Edges {
				rec(e)
			}
		case *ssa.Extract:
			rec(t.Tuple)
		case *ssa.Slice:
			if r, ok := AddrRange(t); ok {
				ranges = append(ranges, r)
				return
			}
			leaves = append(leaves, x)
		case *ssa.Index:
			if r, ok := AddrRange(t); ok {
				ranges = append(ranges, r)
				return
			}
			leaves = append(leaves, x)
		case *ssa.Call:
			leaves = append(leaves, x)
			for _, a := range t.Call.Args {
				rec(a)
			}
			if t.Call.IsInvoke() {
				rec(t.Call.Value)
			}
		default:
			leaves = append(leaves, x)
		}
	}
	rec(v)
	return
}
