package kit

import (
	"go/token"
	"go/types"

	"golang.org/x/tools/go/ssa"
)

// BitSrc identifies one bit of one byte of a root buffer.
type BitSrc struct {
	Root ssa.Value
	Byte int64
	Bit  uint8
}

// BitDeps is a bit-precise dependency summary of an integer/boolean SSA value on buffer
// bytes: Bits[k] = the buffer bits that output bit k may depend on. Other (non-buffer)
// leaves the value depends on are listed in Leaves. Whole[root] is set when the value depends
// on a buffer in a way the analysis does not resolve per bit (then every byte in the listed
// ranges is assumed).
type BitDeps struct {
	Bits   [64]map[BitSrc]bool
	Leaves []ssa.Value
	Coarse []ByteRange
}

func (d *BitDeps) add(k int, s BitSrc) {
	if d.Bits[k] == nil {
		d.Bits[k] = map[BitSrc]bool{}
	}
	d.Bits[k][s] = true
}

// All returns the union of all source bits over all output bits.
func (d *BitDeps) All() map[BitSrc]bool {
	out := map[BitSrc]bool{}
	for _, m := range d.Bits {
		for s := range m {
			out[s] = true
		}
	}
	return out
}

// DependsOnBits reports whether the value depends on every bit in mask of byte idx of a root
// accepted by isRoot — either bit-precisely or through a coarse range covering the byte.
func (d *BitDeps) DependsOnBits(isRoot func(ssa.Value) bool, idx int64, mask uint8) bool {
	for _, c := range d.Coarse {
		if isRoot(c.Root) && c.Covers(idx) {
			return true
		}
	}
	all := d.All()
	for b := uint8(0); b < 8; b++ {
		if mask&(1<<b) == 0 {
			continue
		}
		found := false
		for s := range all {
			if isRoot(s.Root) && s.Byte == idx && s.Bit == b {
				found = true
			}
		}
		if !found {
			return false
		}
	}
	return true
}

func widthOf(t types.Type) int {
	if b, ok := t.Underlying().(*types.Basic); ok {
		switch b.Kind() {
		case types.Bool:
			return 1
		case types.Int8, types.Uint8:
			return 8
		case types.Int16, types.Uint16:
			return 16
		case types.Int32, types.Uint32:
			return 32
		}
	}
	return 64
}

// BitDepsOf computes the bit-precise dependency summary of v (intra-procedural; pure
// helper calls it does not model are treated coarsely over their buffer arguments).
func BitDepsOf(v ssa.Value) *BitDeps {
	memo := map[ssa.Value]*BitDeps{}
	var rec func(x ssa.Value, depth int) *BitDeps
	smear := func(ds ...*BitDeps) *BitDeps {
		// every output bit depends on every input bit
		out := &BitDeps{}
		all := map[BitSrc]bool{}
		for _, d := range ds {
			for s := range d.All() {
				all[s] = true
			}
			out.Leaves = append(out.Leaves, d.Leaves...)
			out.Coarse = append(out.Coarse, d.Coarse...)
		}
		for k := 0; k < 64; k++ {
			for s := range all {
				out.add(k, s)
			}
		}
		return out
	}
	toBool := func(ds ...*BitDeps) *BitDeps {
		out := &BitDeps{}
		for _, d := range ds {
			for s := range d.All() {
				out.add(0, s)
			}
			out.Leaves = append(out.Leaves, d.Leaves...)
			out.Coarse = append(out.Coarse, d.Coarse...)
		}
		return out
	}
	rec = func(x ssa.Value, depth int) *BitDeps {
		if d, ok := memo[x]; ok {
			return d
		}
		d := &BitDeps{}
		memo[x] = d
		if depth > 40 {
			d.Leaves = append(d.Leaves, x)
			return d
		}
		switch t := x.(type) {
		case *ssa.Const:
		case *ssa.UnOp:
			switch t.Op {
			case token.MUL:
				switch a := t.X.(type) {
				case *ssa.IndexAddr:
					if r, ok := AddrRange(a); ok && r.Hi == r.Lo+1 {
						for b := 0; b < 8; b++ {
							d.add(b, BitSrc{r.Root, r.Lo, uint8(b)})
						}
						return d
					}
				case *ssa.Alloc:
					d.Coarse = append(d.Coarse, ByteRange{Root: a, Lo: 0, Hi: -1})
					return d
				}
				d.Leaves = append(d.Leaves, x)
			case token.NOT:
				*d = *rec(t.X, depth+1)
			case token.XOR: // ^x
				*d = *rec(t.X, depth+1)
			default:
				*d = *smear(rec(t.X, depth+1))
			}
		case *ssa.Index:
			if r, ok := AddrRange(t); ok && r.Hi == r.Lo+1 {
				for b := 0; b < 8; b++ {
					d.add(b, BitSrc{r.Root, r.Lo, uint8(b)})
				}
				return d
			}
			d.Leaves = append(d.Leaves, x)
		case *ssa.Convert:
			in := rec(t.X, depth+1)
			w := widthOf(t.Type())
			for k := 0; k < w && k < 64; k++ {
				for s := range in.Bits[k] {
					d.add(k, s)
				}
			}
			d.Leaves, d.Coarse = in.Leaves, in.Coarse
		case *ssa.ChangeType:
			*d = *rec(t.X, depth+1)
		case *ssa.Phi:
			for _, e := range t.Edges {
				in := rec(e, depth+1)
				for k := range in.Bits {
					for s := range in.Bits[k] {
						d.add(k, s)
					}
				}
				d.Leaves = append(d.Leaves, in.Leaves...)
				d.Coarse = append(d.Coarse, in.Coarse...)
			}
		case *ssa.BinOp:
			l, r := rec(t.X, depth+1), rec(t.Y, depth+1)
			cl, lok := ConstInt(t.X)
			cr, rok := ConstInt(t.Y)
			switch t.Op {
			case token.AND:
				switch {
				case rok:
					for k := 0; k < 64; k++ {
						if uint64(cr)&(1<<uint(k)) != 0 {
							for s := range l.Bits[k] {
								d.add(k, s)
							}
						}
					}
					d.Leaves, d.Coarse = l.Leaves, l.Coarse
				case lok:
					for k := 0; k < 64; k++ {
						if uint64(cl)&(1<<uint(k)) != 0 {
							for s := range r.Bits[k] {
								d.add(k, s)
							}
						}
					}
					d.Leaves, d.Coarse = r.Leaves, r.Coarse
				default:
					for k := 0; k < 64; k++ {
						for s := range l.Bits[k] {
							d.add(k, s)
						}
						for s := range r.Bits[k] {
							d.add(k, s)
						}
					}
					d.Leaves = append(append(d.Leaves, l.Leaves...), r.Leaves...)
					d.Coarse = append(append(d.Coarse, l.Coarse...), r.Coarse...)
				}
			case token.AND_NOT:
				if rok {
					for k := 0; k < 64; k++ {
						if uint64(cr)&(1<<uint(k)) == 0 {
							for s := range l.Bits[k] {
								d.add(k, s)
							}
						}
					}
					d.Leaves, d.Coarse = l.Leaves, l.Coarse
				} else {
					*d = *smear(l, r)
				}
			case token.OR, token.XOR:
				for k := 0; k < 64; k++ {
					for s := range l.Bits[k] {
						d.add(k, s)
					}
					for s := range r.Bits[k] {
						d.add(k, s)
					}
				}
				d.Leaves = append(append(d.Leaves, l.Leaves...), r.Leaves...)
				d.Coarse = append(append(d.Coarse, l.Coarse...), r.Coarse...)
			case token.SHL:
				if rok && cr >= 0 && cr < 64 {
					for k := 0; k+int(cr) < 64; k++ {
						for s := range l.Bits[k] {
							d.add(k+int(cr), s)
						}
					}
					d.Leaves, d.Coarse = l.Leaves, l.Coarse
				} else {
					*d = *smear(l, r)
				}
			case token.SHR:
				if rok && cr >= 0 && cr < 64 {
					for k := int(cr); k < 64; k++ {
						for s := range l.Bits[k] {
							d.add(k-int(cr), s)
						}
					}
					d.Leaves, d.Coarse = l.Leaves, l.Coarse
				} else {
					*d = *smear(l, r)
				}
			case token.EQL, token.NEQ, token.LSS, token.LEQ, token.GTR, token.GEQ:
				*d = *toBool(l, r)
			default:
				*d = *smear(l, r)
			}
		case *ssa.Extract:
			if c, ok := t.Tuple.(*ssa.Call); ok {
				if sub := inlineCall(c, t.Index, depth, rec); sub != nil {
					*d = *sub
					return d
				}
			}
			*d = *rec(t.Tuple, depth+1)
		case *ssa.Call:
			cal := CalleeOf(t)
			// encoding/binary fixed-width reads
			if cal.Pkg == "encoding/binary" && (cal.Name == "Uint16" || cal.Name == "Uint32" || cal.Name == "Uint64") {
				n := map[string]int{"Uint16": 2, "Uint32": 4, "Uint64": 8}[cal.Name]
				if r, ok := AddrRange(Arg(t, 0)); ok {
					big := cal.Recv == "bigEndian"
					for k := 0; k < n*8; k++ {
						var byteIdx int64
						if big {
							byteIdx = r.Lo + int64(n-1-k/8)
						} else {
							byteIdx = r.Lo + int64(k/8)
						}
						d.add(k, BitSrc{r.Root, byteIdx, uint8(k % 8)})
					}
					return d
				}
			}
			if (cal.Pkg == "bytes" && cal.Name == "Equal") || (cal.Pkg == "crypto/subtle" && cal.Name == "ConstantTimeCompare") || (cal.Pkg == "bytes" && cal.Name == "Compare") {
				for _, a := range t.Call.Args {
					if r, ok := AddrRange(a); ok {
						d.Coarse = append(d.Coarse, r)
					} else {
						d.Leaves = append(d.Leaves, a)
					}
				}
				return d
			}
			if sub := inlineCall(t, 0, depth, rec); sub != nil {
				*d = *sub
				return d
			}
			// unknown call: coarse over buffer arguments, bit-smear over scalar arguments
			d.Leaves = append(d.Leaves, x)
			var parts []*BitDeps
			for _, a := range t.Call.Args {
				if _, isSlice := a.Type().Underlying().(*types.Slice); isSlice {
					if r, ok := AddrRange(a); ok {
						d.Coarse = append(d.Coarse, r)
					}
					continue
				}
				if _, isPtr := a.Type().Underlying().(*types.Pointer); isPtr {
					if r, ok := AddrRange(a); ok {
						d.Coarse = append(d.Coarse, r)
					}
					continue
				}
				parts = append(parts, rec(a, depth+1))
			}
			if len(parts) > 0 {
				sm := smear(parts...)
				sm.Leaves = append(sm.Leaves, d.Leaves...)
				sm.Coarse = append(sm.Coarse, d.Coarse...)
				*d = *sm
			}
		default:
			d.Leaves = append(d.Leaves, x)
		}
		return d
	}
	return rec(v, 0)
}

// inlineCall summarises a static call to a small repository function with a body by
// analysing its returned value and substituting parameters by the caller's arguments
// (buffer parameters by the argument's byte range, scalar parameters by the argument's own
// dependencies). Returns nil when the callee is not suitable.
func inlineCall(c *ssa.Call, resultIdx int, depth int, rec func(ssa.Value, int) *BitDeps) *BitDeps {
	cal := CalleeOf(c)
	f := cal.Static
	if f == nil || f.Blocks == nil || depth > 12 || !IsRepoPkg(FuncPkgPath(f)) {
		return nil
	}
	n := 0
	for _, b := range f.Blocks {
		n += len(b.Instrs)
	}
	if n > 80 {
		return nil
	}
	out := &BitDeps{}
	args := c.Call.Args
	paramIdx := map[ssa.Value]int{}
	for i, p := range f.Params {
		paramIdx[p] = i
	}
	mapSrc := func(s BitSrc) (BitSrc, bool) {
		i, isParam := paramIdx[s.Root]
		if !isParam {
			return s, true
		}
		if i >= len(args) {
			return s, false
		}
		ar, ok := AddrRange(args[i])
		if !ok {
			return s, false
		}
		return BitSrc{ar.Root, ar.Lo + s.Byte, s.Bit}, true
	}
	for _, ret := range Returns(f) {
		if resultIdx >= len(ret.Results) {
			continue
		}
		sub := BitDepsOf(ReturnResult(ret, resultIdx))
		for k := range sub.Bits {
			for s := range sub.Bits[k] {
				if ms, ok := mapSrc(s); ok {
					out.add(k, ms)
				}
			}
		}
		for _, cr := range sub.Coarse {
			if i, isParam := paramIdx[cr.Root]; isParam && i < len(args) {
				if ar, ok := AddrRange(args[i]); ok {
					hi := int64(-1)
					if cr.Hi >= 0 {
						hi = ar.Lo + cr.Hi
					}
					out.Coarse = append(out.Coarse, ByteRange{ar.Root, ar.Lo + cr.Lo, hi})
				}
				continue
			}
			out.Coarse = append(out.Coarse, cr)
		}
		for _, l := range sub.Leaves {
			if i, isParam := paramIdx[l]; isParam && i < len(args) {
				in := rec(args[i], depth+1)
				for k := range in.Bits {
					for s := range in.Bits[k] {
						// a scalar parameter used as a leaf: precise position unknown => smear
						for kk := 0; kk < 64; kk++ {
							out.add(kk, s)
						}
					}
				}
				out.Leaves = append(out.Leaves, in.Leaves...)
				out.Coarse = append(out.Coarse, in.Coarse...)
				continue
			}
			out.Leaves = append(out.Leaves, l)
		}
	}
	return out
}
