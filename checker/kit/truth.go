package kit

import (
	"go/token"
	"go/types"

	"golang.org/x/tools/go/ssa"
)

// AtomEval gives the truth value of an atomic (non-boolean-connective) condition under
// the abstract assignment being explored. known=false aborts the walk (undecidable).
type AtomEval func(cond ssa.Value) (val bool, known bool)

// WalkResult is where an abstract walk ended.
type WalkResult struct {
	Block   *ssa.BasicBlock // block at which stop() fired, or the final block (no successors)
	Stopped bool            // stop() fired
	Known   bool            // false: an atom was unknown or the walk looped
	Path    []*ssa.BasicBlock
}

// WalkCFG abstractly evaluates control flow from block start: at every If it evaluates the
// condition (boolean connectives, negation, phis of the short-circuit lowering and constants
// are interpreted; everything else is delegated to atom) and follows the taken edge, until
// stop(b) is true for the block reached or the function exits. No code is executed: this is
// evaluation of branch conditions over a finite abstract domain chosen by the rule.
func WalkCFG(start *ssa.BasicBlock, atom AtomEval, stop func(b *ssa.BasicBlock) bool) WalkResult {
	var prev *ssa.BasicBlock
	b := start
	res := WalkResult{Known: true}
	visits := map[*ssa.BasicBlock]int{}
	for {
		res.Path = append(res.Path, b)
		visits[b]++
		if visits[b] > 3 {
			res.Known = false
			res.Block = b
			return res
		}
		if b != start && stop != nil && stop(b) {
			res.Block, res.Stopped = b, true
			return res
		}
		if len(b.Instrs) == 0 {
			res.Block = b
			return res
		}
		switch last := b.Instrs[len(b.Instrs)-1].(type) {
		case *ssa.If:
			v, ok := EvalBool(last.Cond, atom, prev, b)
			if !ok {
				res.Known = false
				res.Block = b
				return res
			}
			prev = b
			if v {
				b = b.Succs[0]
			} else {
				b = b.Succs[1]
			}
		case *ssa.Jump:
			prev = b
			b = b.Succs[0]
		default:
			res.Block = b
			return res
		}
	}
}

// EvalBool evaluates a boolean SSA value under atom. prev/cur give the edge by which the
// current block was entered (needed for phis of `a && b` used as values).
func EvalBool(v ssa.Value, atom AtomEval, prev, cur *ssa.BasicBlock) (bool, bool) {
	switch x := v.(type) {
	case *ssa.Const:
		if b, ok := ConstBool(x); ok {
			return b, true
		}
	case *ssa.UnOp:
		if x.Op == token.NOT {
			r, ok := EvalBool(x.X, atom, prev, cur)
			return !r, ok
		}
	case *ssa.Phi:
		// determine the incoming edge: only resolvable when the phi is in the current block
		if x.Block() == cur && prev != nil {
			for i, p := range cur.Preds {
				if p == prev {
					return EvalBool(x.Edges[i], atom, nil, nil)
				}
			}
		}
		// all edges agree?
		first, ok := EvalBool(x.Edges[0], atom, nil, nil)
		if !ok {
			return false, false
		}
		for _, e := range x.Edges[1:] {
			r, ok := EvalBool(e, atom, nil, nil)
			if !ok || r != first {
				return false, false
			}
		}
		return first, true
	case *ssa.BinOp:
		// boolean == / != of two boolean sub-expressions
		if (x.Op == token.EQL || x.Op == token.NEQ) && isBoolType(x.X) {
			if a, ok := atom(v); ok {
				return a, true
			}
			l, ok1 := EvalBool(x.X, atom, prev, cur)
			r, ok2 := EvalBool(x.Y, atom, prev, cur)
			if ok1 && ok2 {
				return (l == r) == (x.Op == token.EQL), true
			}
			return false, false
		}
	}
	return atom(v)
}

func isBoolType(v ssa.Value) bool {
	b, ok := v.Type().Underlying().(*types.Basic)
	return ok && b.Kind() == types.Bool
}

// Ordering is the sign of (x - y) for a compared pair.
type Ordering int

const (
	Less    Ordering = -1
	Equal   Ordering = 0
	Greater Ordering = 1
)

// CmpUnder evaluates "x op y" given the ordering of x relative to y.
func CmpUnder(op token.Token, o Ordering) bool {
	switch op {
	case token.LSS:
		return o < 0
	case token.LEQ:
		return o <= 0
	case token.GTR:
		return o > 0
	case token.GEQ:
		return o >= 0
	case token.EQL:
		return o == 0
	case token.NEQ:
		return o != 0
	}
	return false
}
