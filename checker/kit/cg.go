package kit

import (
	"golang.org/x/tools/go/callgraph"
	"golang.org/x/tools/go/ssa"
)

// ReachableFrom returns every function reachable in the VTA call graph from the roots
// (the roots included). Calls through `go` and `defer` are edges as well.
func (p *Program) ReachableFrom(roots ...*ssa.Function) map[*ssa.Function]bool {
	cg := p.CallGraph()
	seen := map[*ssa.Function]bool{}
	var work []*ssa.Function
	for _, r := range roots {
		if r != nil && !seen[r] {
			seen[r] = true
			work = append(work, r)
		}
	}
	for len(work) > 0 {
		f := work[len(work)-1]
		work = work[:len(work)-1]
		n := cg.Nodes[f]
		if n == nil {
			continue
		}
		for _, e := range n.Out {
			c := e.Callee.Func
			if !seen[c] {
				seen[c] = true
				work = append(work, c)
			}
		}
		// closures created in f are considered reachable from f (they are usually
		// invoked via go/defer/callback registration)
		for _, a := range f.AnonFuncs {
			if !seen[a] {
				seen[a] = true
				work = append(work, a)
			}
		}
	}
	return seen
}

// CallEdgesInto returns the call-graph edges whose callee is fn.
func (p *Program) CallEdgesInto(fn *ssa.Function) []*callgraph.Edge {
	n := p.CallGraph().Nodes[fn]
	if n == nil {
		return nil
	}
	return n.In
}

// CalleesAt returns the possible callees of a call site per the call graph (static callee
// for static calls).
func (p *Program) CalleesAt(site ssa.CallInstruction) []*ssa.Function {
	if c := CalleeOf(site); c.Static != nil {
		return []*ssa.Function{c.Static}
	}
	n := p.CallGraph().Nodes[site.Parent()]
	if n == nil {
		return nil
	}
	var out []*ssa.Function
	for _, e := range n.Out {
		if e.Site == site {
			out = append(out, e.Callee.Func)
		}
	}
	return out
}

// PathTo finds one call path (list of functions) from root to target in the call graph, or nil.
func (p *Program) PathTo(root, target *ssa.Function) []*ssa.Function {
	cg := p.CallGraph()
	prev := map[*ssa.Function]*ssa.Function{root: nil}
	work := []*ssa.Function{root}
	for len(work) > 0 {
		f := work[0]
		work = work[1:]
		if f == target {
			var path []*ssa.Function
			for x := target; x != nil; x = prev[x] {
				path = append([]*ssa.Function{x}, path...)
			}
			return path
		}
		n := cg.Nodes[f]
		if n == nil {
			continue
		}
		next := []*ssa.Function{}
		for _, e := range n.Out {
			next = append(next, e.Callee.Func)
		}
		next = append(next, f.AnonFuncs...)
		for _, c := range next {
			if _, ok := prev[c]; !ok {
				prev[c] = f
				work = append(work, c)
			}
		}
	}
	return nil
}
