package kit

// Generic helpers added with the C35–C38 rule sets: guards on a CFG edge, phi leaves with
// the guards of the edge they arrive on, linear integer forms, a struct type walker (K11)
// and access-path resolution of address expressions.

import (
	"go/token"
	"go/types"
	"sort"
	"strings"

	"golang.org/x/tools/go/ssa"
)

// GuardsOnEdge returns the branch conditions that necessarily hold when control flows along
// the CFG edge pred -> succ: the guards of pred plus pred's own terminating If.
func GuardsOnEdge(pred, succ *ssa.BasicBlock) []Guard {
	gs := append([]Guard{}, Guards(pred)...)
	if n := len(pred.Instrs); n > 0 && len(pred.Succs) == 2 {
		if ifi, ok := pred.Instrs[n-1].(*ssa.If); ok && pred.Succs[0] != pred.Succs[1] {
			if pred.Succs[0] == succ {
				gs = append(gs, Guard{Cond: ifi.Cond, Polarity: true, If: ifi})
			} else if pred.Succs[1] == succ {
				gs = append(gs, Guard{Cond: ifi.Cond, Polarity: false, If: ifi})
			}
		}
	}
	return gs
}

// GuardedLeaf is a non-phi leaf of a value together with the guards that hold whenever the
// value takes that leaf.
type GuardedLeaf struct {
	V      ssa.Value
	Guards []Guard
}

// GuardedLeaves expands v (as used by instruction at) through phi nodes. A leaf reached
// through a phi edge carries the guards of that edge; a direct value carries the guards of at.
func GuardedLeaves(v ssa.Value, at ssa.Instruction) []GuardedLeaf {
	var out []GuardedLeaf
	seen := map[ssa.Value]bool{}
	var rec func(x ssa.Value, gs []Guard)
	rec = func(x ssa.Value, gs []Guard) {
		if phi, ok := x.(*ssa.Phi); ok {
			if seen[x] {
				return
			}
			seen[x] = true
			for i, e := range phi.Edges {
				rec(e, GuardsOnEdge(phi.Block().Preds[i], phi.Block()))
			}
			return
		}
		out = append(out, GuardedLeaf{x, gs})
	}
	rec(v, GuardsOf(at))
	return out
}

// ---------- linear integer forms (K9, minimal) ----------

// Linear is c0 + Σ ci·sym over SSA symbols (values that are not +, -, conversions or constants).
type Linear struct {
	Terms map[ssa.Value]int64
	Const int64
	Exact bool // false when an operator outside {+,-,conversion,const} was treated as a symbol on a non-leaf
}

// LinearOf normalises an integer SSA expression through ADD, SUB, unary minus, integer
// conversions and constants. Conversions are treated as value-preserving (the caller is
// responsible for the range facts that justify that).
func LinearOf(v ssa.Value) Linear {
	l := Linear{Terms: map[ssa.Value]int64{}, Exact: true}
	var rec func(x ssa.Value, k int64, depth int)
	rec = func(x ssa.Value, k int64, depth int) {
		if c, ok := ConstInt(x); ok {
			l.Const += k * c
			return
		}
		if depth > 40 {
			l.Terms[x] += k
			return
		}
		switch t := x.(type) {
		case *ssa.BinOp:
			switch t.Op {
			case token.ADD:
				rec(t.X, k, depth+1)
				rec(t.Y, k, depth+1)
				return
			case token.SUB:
				rec(t.X, k, depth+1)
				rec(t.Y, -k, depth+1)
				return
			}
		case *ssa.UnOp:
			if t.Op == token.SUB {
				rec(t.X, -k, depth+1)
				return
			}
		case *ssa.Convert:
			if isIntegerType(t.X.Type()) && isIntegerType(t.Type()) {
				rec(t.X, k, depth+1)
				return
			}
		case *ssa.ChangeType:
			rec(t.X, k, depth+1)
			return
		}
		l.Terms[x] += k
	}
	rec(v, 1, 0)
	for s, k := range l.Terms {
		if k == 0 {
			delete(l.Terms, s)
		}
	}
	return l
}

func isIntegerType(t types.Type) bool {
	b, ok := t.Underlying().(*types.Basic)
	return ok && b.Info()&types.IsInteger != 0
}

// Coef returns the coefficient of sym.
func (l Linear) Coef(sym ssa.Value) int64 { return l.Terms[sym] }

// ---------- struct type walker (K11) ----------

// PathStep is one step of an access path: a struct field, a slice/array element, a pointer
// dereference or a map value.
type PathStep struct {
	Field *types.Var // non-nil for a field step
	Kind  string     // "field", "elem", "deref", "mapval"
}

// PathString renders an access path: Peers[].TLS.Key
func PathString(path []PathStep) string {
	var b strings.Builder
	for _, s := range path {
		switch s.Kind {
		case "field":
			if b.Len() > 0 {
				b.WriteByte('.')
			}
			b.WriteString(s.Field.Name())
		case "elem":
			b.WriteString("[]")
		case "deref":
			b.WriteString("*")
		case "mapval":
			b.WriteString("[k]")
		}
	}
	return b.String()
}

// WalkStructFields enumerates every field reachable from root through structs, pointers,
// slices, arrays and map values. visit receives the access path ending in the field (the
// last step is the field itself) and the named struct type declaring it (nil for anonymous
// structs). Recursive types are cut at the second occurrence of a named type on a path.
func WalkStructFields(root types.Type, visit func(path []PathStep, owner *types.Named, f *types.Var)) {
	var rec func(t types.Type, path []PathStep, onPath map[*types.Named]int)
	rec = func(t types.Type, path []PathStep, onPath map[*types.Named]int) {
		var named *types.Named
		if n, ok := types.Unalias(t).(*types.Named); ok {
			named = n
			if onPath[n] >= 1 {
				return
			}
			onPath[n]++
			defer func() { onPath[n]-- }()
		}
		switch u := t.Underlying().(type) {
		case *types.Struct:
			for i := 0; i < u.NumFields(); i++ {
				f := u.Field(i)
				p := append(append([]PathStep{}, path...), PathStep{Field: f, Kind: "field"})
				visit(p, named, f)
				rec(f.Type(), p, onPath)
			}
		case *types.Pointer:
			rec(u.Elem(), append(append([]PathStep{}, path...), PathStep{Kind: "deref"}), onPath)
		case *types.Slice:
			rec(u.Elem(), append(append([]PathStep{}, path...), PathStep{Kind: "elem"}), onPath)
		case *types.Array:
			rec(u.Elem(), append(append([]PathStep{}, path...), PathStep{Kind: "elem"}), onPath)
		case *types.Map:
			rec(u.Elem(), append(append([]PathStep{}, path...), PathStep{Kind: "mapval"}), onPath)
		}
	}
	rec(root, nil, map[*types.Named]int{})
}

// AddrPath resolves an address expression (a chain of FieldAddr / IndexAddr / loads of
// slice- or pointer-typed fields) to its root value and access path. For IndexAddr steps
// the index values are returned in order. ok=false when the chain contains anything else.
//
//	&t5.Peers[i].TLS.Key  =>  root t5, path Peers [] TLS Key, indices [i]
func AddrPath(addr ssa.Value) (root ssa.Value, path []PathStep, indices []ssa.Value, slices []ssa.Value, ok bool) {
	var rev []PathStep
	var revIdx, revSl []ssa.Value
	v := addr
	for i := 0; i < 64; i++ {
		switch x := v.(type) {
		case *ssa.FieldAddr:
			rev = append(rev, PathStep{Field: FieldOfAddr(x), Kind: "field"})
			v = x.X
			// a FieldAddr on a pointer that was itself loaded from a pointer-typed field is a deref step
			if u, isLoad := v.(*ssa.UnOp); isLoad && u.Op == token.MUL {
				if _, isPtrField := u.X.(*ssa.FieldAddr); isPtrField {
					rev = append(rev, PathStep{Kind: "deref"})
					v = u.X
				} else if ia, isElem := u.X.(*ssa.IndexAddr); isElem {
					rev = append(rev, PathStep{Kind: "deref"})
					v = ia
				}
			}
		case *ssa.IndexAddr:
			rev = append(rev, PathStep{Kind: "elem"})
			revIdx = append(revIdx, x.Index)
			v = x.X
			if u, isLoad := v.(*ssa.UnOp); isLoad && u.Op == token.MUL {
				// slice value loaded from its holder
				revSl = append(revSl, u)
				v = u.X
			} else {
				revSl = append(revSl, v)
				// indexing a slice value that is not a load (parameter, call result): root is that value
				if _, isPtrToArray := v.Type().Underlying().(*types.Pointer); !isPtrToArray {
					root = v
					goto done
				}
			}
		default:
			root = v
			goto done
		}
	}
	return nil, nil, nil, nil, false
done:
	for i := len(rev) - 1; i >= 0; i-- {
		path = append(path, rev[i])
	}
	for i := len(revIdx) - 1; i >= 0; i-- {
		indices = append(indices, revIdx[i])
	}
	for i := len(revSl) - 1; i >= 0; i-- {
		slices = append(slices, revSl[i])
	}
	return root, path, indices, slices, true
}

// SamePath compares two access paths step by step.
func SamePath(a, b []PathStep) bool {
	if len(a) != len(b) {
		return false
	}
	for i := range a {
		if a[i].Kind != b[i].Kind || a[i].Field != b[i].Field {
			return false
		}
	}
	return true
}

// SortedKeys returns the keys of a string-keyed map in order (deterministic reports).
func SortedKeys[V any](m map[string]V) []string {
	out := make([]string, 0, len(m))
	for k := range m {
		out = append(out, k)
	}
	sort.Strings(out)
	return out
}
