package kit

import (
	"fmt"
	"go/token"
	"go/types"
	"strings"

	"golang.org/x/tools/go/ssa"
)

// SourceKind classifies where a value ultimately comes from.
type SourceKind string

const (
	SrcConst   SourceKind = "const"
	SrcCall    SourceKind = "call"    // result of a call (Call, ResultIdx)
	SrcParam   SourceKind = "param"   // function parameter (not followed to callers)
	SrcField   SourceKind = "field"   // load of a struct field (not followed to stores)
	SrcGlobal  SourceKind = "global"  // package-level variable
	SrcAlloc   SourceKind = "alloc"   // fresh allocation / zero value (new, make, composite literal, var x T)
	SrcLookup  SourceKind = "lookup"  // map lookup (when not followed)
	SrcWritten SourceKind = "written" // memory written by a callee that received its address (ReadFull(buf), rand.Read(buf))
	SrcRecv    SourceKind = "recv"    // channel receive
	SrcOther   SourceKind = "other"
	SrcTop     SourceKind = "top" // gave up (depth/size)
)

// Source is one leaf of a backward slice.
type Source struct {
	Kind      SourceKind
	Value     ssa.Value
	Call      ssa.CallInstruction
	ResultIdx int
	Field     *types.Var
	Base      ssa.Value
	Fn        *ssa.Function
}

func (s Source) String() string {
	switch s.Kind {
	case SrcCall:
		return fmt.Sprintf("call %s#%d", CalleeOf(s.Call), s.ResultIdx)
	case SrcWritten:
		return fmt.Sprintf("written-by %s", CalleeOf(s.Call))
	case SrcField:
		return "field " + s.Field.Name()
	case SrcParam:
		return "param " + s.Value.Name() + " of " + FuncName(s.Fn)
	case SrcConst:
		return "const " + s.Value.String()
	case SrcGlobal:
		return "global " + s.Value.Name()
	}
	return string(s.Kind)
}

// SliceOpts configures Slice.
type SliceOpts struct {
	Prog *Program
	// MaxNodes bounds the number of visited SSA values (default 4000). Exceeding => SrcTop.
	MaxNodes int
	// FollowFields: continue from a field load into every store to that field in the repository.
	FollowFields bool
	// FollowField lets a rule decide per field (overrides FollowFields when non-nil).
	FollowField func(f *types.Var) bool
	// FollowParams: continue from a parameter into the matching argument at every static
	// call site found in the repository (depth-limited by ParamDepth, default 3).
	FollowParams bool
	ParamDepth   int
	// FollowCall: when non-nil and returns true for a call to a repository function with a
	// body, the slice continues into the callee's returned values for that result index.
	FollowCall func(c ssa.CallInstruction) bool
	// Stop: treat v as a leaf (reported as SrcOther unless it classifies naturally).
	Stop func(v ssa.Value) bool
	// Visit is called for every SSA value the slice passes through.
	Visit func(v ssa.Value)
}

type slicer struct {
	o       SliceOpts
	seen    map[ssa.Value]bool
	out     []Source
	n       int
	callers map[*ssa.Function][]ssa.CallInstruction
}

// Slice computes the backward data-dependence leaves of v.
func Slice(v ssa.Value, o SliceOpts) []Source {
	if o.MaxNodes == 0 {
		o.MaxNodes = 4000
	}
	if o.ParamDepth == 0 {
		o.ParamDepth = 3
	}
	s := &slicer{o: o, seen: map[ssa.Value]bool{}}
	s.visit(v, 0)
	return s.out
}

func (s *slicer) leaf(src Source) { s.out = append(s.out, src) }

func (s *slicer) visit(v ssa.Value, pdepth int) {
	if v == nil || s.seen[v] {
		return
	}
	s.seen[v] = true
	s.n++
	if s.n > s.o.MaxNodes {
		s.leaf(Source{Kind: SrcTop, Value: v})
		return
	}
	if s.o.Visit != nil {
		s.o.Visit(v)
	}
	if s.o.Stop != nil && s.o.Stop(v) {
		s.leaf(Source{Kind: SrcOther, Value: v})
		return
	}
	switch x := v.(type) {
	case *ssa.Const:
		s.leaf(Source{Kind: SrcConst, Value: v})
	case *ssa.Phi:
		for _, e := range x.Edges {
			s.visit(e, pdepth)
		}
	case *ssa.Extract:
		switch t := x.Tuple.(type) {
		case *ssa.Call:
			s.call(t, x.Index, pdepth)
		case *ssa.Lookup:
			s.visit(t, pdepth)
		case *ssa.TypeAssert:
			s.visit(t.X, pdepth)
		case *ssa.Next:
			s.visit(t.Iter, pdepth)
		case *ssa.UnOp: // v, ok := <-ch
			s.visit(t, pdepth)
		case *ssa.Select:
			s.leaf(Source{Kind: SrcRecv, Value: v})
		default:
			s.leaf(Source{Kind: SrcOther, Value: v})
		}
	case *ssa.Call:
		s.call(x, 0, pdepth)
	case *ssa.UnOp:
		switch x.Op {
		case token.MUL:
			s.load(x, pdepth)
		case token.ARROW:
			s.leaf(Source{Kind: SrcRecv, Value: v})
		default:
			s.visit(x.X, pdepth)
		}
	case *ssa.BinOp:
		s.visit(x.X, pdepth)
		s.visit(x.Y, pdepth)
	case *ssa.Convert:
		s.visit(x.X, pdepth)
	case *ssa.ChangeType:
		s.visit(x.X, pdepth)
	case *ssa.MakeInterface:
		s.visit(x.X, pdepth)
	case *ssa.ChangeInterface:
		s.visit(x.X, pdepth)
	case *ssa.TypeAssert:
		s.visit(x.X, pdepth)
	case *ssa.SliceToArrayPointer:
		s.visit(x.X, pdepth)
	case *ssa.Slice:
		s.visit(x.X, pdepth)
	case *ssa.Index:
		s.visit(x.X, pdepth)
	case *ssa.IndexAddr:
		s.visit(x.X, pdepth)
	case *ssa.Range:
		s.visit(x.X, pdepth)
	case *ssa.Next:
		s.visit(x.Iter, pdepth)
	case *ssa.Field:
		f := FieldOfAddr(x)
		// a field of a struct *value*: follow the struct value (which usually is a load or call result)
		s.leaf(Source{Kind: SrcField, Value: v, Field: f, Base: x.X})
		s.visit(x.X, pdepth)
	case *ssa.FieldAddr:
		// address of a field used as a value (e.g. &sk.key passed on): memory identity
		s.memory(x, pdepth)
	case *ssa.Lookup:
		s.leaf(Source{Kind: SrcLookup, Value: v})
		s.visit(x.X, pdepth)
	case *ssa.Alloc:
		s.memory(x, pdepth)
	case *ssa.MakeSlice, *ssa.MakeMap, *ssa.MakeChan:
		s.leaf(Source{Kind: SrcAlloc, Value: v})
		if ms, ok := v.(*ssa.MakeSlice); ok {
			_ = ms
		}
		s.memoryWriters(v, pdepth)
	case *ssa.MakeClosure:
		s.leaf(Source{Kind: SrcOther, Value: v})
	case *ssa.Parameter:
		s.param(x, pdepth)
	case *ssa.FreeVar:
		s.freevar(x, pdepth)
	case *ssa.Global:
		s.leaf(Source{Kind: SrcGlobal, Value: v})
	case *ssa.Function, *ssa.Builtin:
		s.leaf(Source{Kind: SrcOther, Value: v})
	default:
		s.leaf(Source{Kind: SrcOther, Value: v})
	}
}

func (s *slicer) call(c *ssa.Call, idx int, pdepth int) {
	cal := CalleeOf(c)
	if cal.Built != "" {
		switch cal.Built {
		case "append":
			for _, a := range c.Call.Args {
				s.visit(a, pdepth)
			}
			return
		case "len", "cap", "min", "max":
			for _, a := range c.Call.Args {
				s.visit(a, pdepth)
			}
			return
		}
		s.leaf(Source{Kind: SrcCall, Value: c, Call: c, ResultIdx: idx})
		return
	}
	if s.o.FollowCall != nil && cal.Static != nil && cal.Static.Blocks != nil && s.o.FollowCall(c) {
		for _, r := range Returns(cal.Static) {
			if idx < len(r.Results) {
				s.visit(r.Results[idx], pdepth)
			}
		}
		return
	}
	s.leaf(Source{Kind: SrcCall, Value: c, Call: c, ResultIdx: idx})
}

func (s *slicer) load(x *ssa.UnOp, pdepth int) {
	switch a := x.X.(type) {
	case *ssa.FieldAddr:
		f := FieldOfAddr(a)
		// local struct (alloc) fields: follow stores inside the function
		if root := allocRoot(a.X); root != nil {
			s.memory(a, pdepth)
			return
		}
		follow := s.o.FollowFields
		if s.o.FollowField != nil {
			follow = s.o.FollowField(f)
		}
		if !follow || s.o.Prog == nil {
			s.leaf(Source{Kind: SrcField, Value: x, Field: f, Base: a.X})
			return
		}
		s.leaf(Source{Kind: SrcField, Value: x, Field: f, Base: a.X})
		for _, acc := range s.o.Prog.FieldAccessesOfKind(f, FieldStore) {
			s.visit(acc.Val, pdepth)
		}
	case *ssa.Alloc, *ssa.IndexAddr:
		s.memory(a, pdepth)
	case *ssa.Global:
		s.leaf(Source{Kind: SrcGlobal, Value: a})
	case *ssa.FreeVar:
		s.freevar(a, pdepth)
	default:
		s.visit(a, pdepth)
	}
}

// allocRoot returns the Alloc that addr is derived from through FieldAddr/IndexAddr/Slice, or nil.
func allocRoot(v ssa.Value) *ssa.Alloc {
	for i := 0; i < 20; i++ {
		switch x := v.(type) {
		case *ssa.Alloc:
			return x
		case *ssa.FieldAddr:
			v = x.X
		case *ssa.IndexAddr:
			v = x.X
		case *ssa.Slice:
			v = x.X
		default:
			return nil
		}
	}
	return nil
}

// memory handles a read of memory rooted at addr (an Alloc, or a FieldAddr/IndexAddr/Slice of one):
// the sources are all writes into that memory within the function.
func (s *slicer) memory(addr ssa.Value, pdepth int) {
	root := allocRoot(addr)
	if root == nil {
		// unknown memory: follow the address expression's operands
		switch a := addr.(type) {
		case *ssa.IndexAddr:
			s.visit(a.X, pdepth)
		case *ssa.FieldAddr:
			f := FieldOfAddr(a)
			s.leaf(Source{Kind: SrcField, Value: a, Field: f, Base: a.X})
			s.visit(a.X, pdepth)
		default:
			s.leaf(Source{Kind: SrcOther, Value: addr})
		}
		return
	}
	if s.seen[root] && root != addr {
		// already expanded
		return
	}
	s.seen[root] = true
	s.leaf(Source{Kind: SrcAlloc, Value: root})
	s.memoryWriters(root, pdepth)
}

// memoryWriters finds writes into the memory denoted by root (transitively through
// FieldAddr/IndexAddr/Slice derived addresses).
func (s *slicer) memoryWriters(root ssa.Value, pdepth int) {
	seen := map[ssa.Value]bool{}
	var walk func(a ssa.Value)
	walk = func(a ssa.Value) {
		if seen[a] {
			return
		}
		seen[a] = true
		refs := a.Referrers()
		if refs == nil {
			return
		}
		for _, r := range *refs {
			switch rr := r.(type) {
			case *ssa.Store:
				if rr.Addr == a {
					s.visit(rr.Val, pdepth)
				}
			case *ssa.FieldAddr:
				if rr.X == a {
					walk(rr)
				}
			case *ssa.IndexAddr:
				if rr.X == a {
					walk(rr)
				}
			case *ssa.Slice:
				if rr.X == a {
					walk(rr)
				}
			case *ssa.MapUpdate:
				if rr.Map == a {
					s.visit(rr.Value, pdepth)
				}
			case ssa.CallInstruction:
				cal := CalleeOf(rr)
				args := rr.Common().Args
				if cal.Built == "copy" && len(args) == 2 {
					if args[0] == a {
						s.visit(args[1], pdepth)
					}
					continue
				}
				if cal.Built != "" {
					continue
				}
				// the address escapes into a callee which may write through it
				isArg := false
				for _, x := range args {
					if x == a {
						isArg = true
					}
				}
				if rr.Common().IsInvoke() && rr.Common().Value == a {
					isArg = false
				}
				if isArg {
					s.leaf(Source{Kind: SrcWritten, Value: a, Call: rr})
					for _, x := range args {
						if x != a {
							s.visit(x, pdepth)
						}
					}
				}
			}
		}
	}
	walk(root)
}

func (s *slicer) param(p *ssa.Parameter, pdepth int) {
	fn := p.Parent()
	if !s.o.FollowParams || s.o.Prog == nil || pdepth >= s.o.ParamDepth {
		s.leaf(Source{Kind: SrcParam, Value: p, Fn: fn})
		return
	}
	idx := -1
	for i, q := range fn.Params {
		if q == p {
			idx = i
		}
	}
	sites := s.o.Prog.StaticCallers(fn)
	if idx < 0 || len(sites) == 0 {
		s.leaf(Source{Kind: SrcParam, Value: p, Fn: fn})
		return
	}
	for _, site := range sites {
		args := site.Common().Args
		if idx < len(args) {
			s.visit(args[idx], pdepth+1)
		}
	}
}

func (s *slicer) freevar(fv *ssa.FreeVar, pdepth int) {
	fn := fv.Parent()
	idx := -1
	for i, q := range fn.FreeVars {
		if q == fv {
			idx = i
		}
	}
	parent := fn.Parent()
	if parent == nil || idx < 0 {
		s.leaf(Source{Kind: SrcOther, Value: fv})
		return
	}
	found := false
	Instrs(parent, func(in ssa.Instruction) {
		if mc, ok := in.(*ssa.MakeClosure); ok && mc.Fn == fn && idx < len(mc.Bindings) {
			found = true
			b := mc.Bindings[idx]
			// bindings are addresses of captured variables (or values for immutable captures)
			if _, isPtr := b.Type().Underlying().(*types.Pointer); isPtr {
				if root := allocRoot(b); root != nil {
					s.memory(b, pdepth)
					return
				}
			}
			s.visit(b, pdepth)
		}
	})
	if !found {
		s.leaf(Source{Kind: SrcOther, Value: fv})
	}
}

// StaticCallers returns the static call sites (call/go/defer) of fn in repository code.
func (p *Program) StaticCallers(fn *ssa.Function) []ssa.CallInstruction {
	if p.callersIdx == nil {
		p.callersIdx = map[*ssa.Function][]ssa.CallInstruction{}
		for _, f := range p.RepoFuncs() {
			for _, c := range Calls(f) {
				if cal := CalleeOf(c); cal.Static != nil {
					p.callersIdx[cal.Static] = append(p.callersIdx[cal.Static], c)
				}
			}
		}
	}
	return p.callersIdx[fn]
}

// ---------- convenience predicates over slices ----------

// DependsOn reports whether v's backward slice (intra-procedural, fields not followed)
// passes through target.
func DependsOn(v, target ssa.Value) bool {
	hit := false
	Slice(v, SliceOpts{Visit: func(x ssa.Value) {
		if x == target {
			hit = true
		}
	}})
	return hit
}

// SourcesString renders sources for diagnostics.
func SourcesString(src []Source) string {
	var parts []string
	seen := map[string]bool{}
	for _, s := range src {
		t := s.String()
		if !seen[t] {
			seen[t] = true
			parts = append(parts, t)
		}
	}
	return strings.Join(parts, ", ")
}
