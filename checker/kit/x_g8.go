package kit

// Generic helpers added by group g8 (C24/C25): normalised branch facts, must-pass-through
// over accepting CFG edges, "how can this function return X" witnesses, and a small
// backward derivation walk. Nothing here is specific to a property.

import (
	"go/token"
	"go/types"

	"golang.org/x/tools/go/ssa"
)

// G8Fact is a normalised branch fact: when Nil is false, "V (a bool value) == Pol"; when Nil
// is true, "(V == nil) == Pol" for an error/pointer/interface value V.
type G8Fact struct {
	V   ssa.Value
	Pol bool
	Nil bool
}

// G8Norm normalises (cond, polarity): strips `!x`, `x == true`, `x != false`, and turns
// `x == nil` / `x != nil` into a Nil fact on x.
func G8Norm(cond ssa.Value, pol bool) G8Fact {
	for i := 0; i < 16; i++ {
		switch x := cond.(type) {
		case *ssa.UnOp:
			if x.Op == token.NOT {
				cond, pol = x.X, !pol
				continue
			}
		case *ssa.BinOp:
			if x.Op != token.EQL && x.Op != token.NEQ {
				break
			}
			eq := x.Op == token.EQL
			if IsNilConst(x.Y) {
				return G8Fact{V: x.X, Pol: pol == eq, Nil: true}
			}
			if IsNilConst(x.X) {
				return G8Fact{V: x.Y, Pol: pol == eq, Nil: true}
			}
			if b, ok := ConstBool(x.Y); ok {
				cond, pol = x.X, pol == (eq == b)
				continue
			}
			if b, ok := ConstBool(x.X); ok {
				cond, pol = x.Y, pol == (eq == b)
				continue
			}
		}
		break
	}
	return G8Fact{V: cond, Pol: pol}
}

// G8EdgeFact returns the fact established by taking the CFG edge from -> to.
func G8EdgeFact(from, to *ssa.BasicBlock) (G8Fact, bool) {
	if len(from.Instrs) == 0 || len(from.Succs) != 2 || from.Succs[0] == from.Succs[1] {
		return G8Fact{}, false
	}
	ifi, ok := from.Instrs[len(from.Instrs)-1].(*ssa.If)
	if !ok {
		return G8Fact{}, false
	}
	switch to {
	case from.Succs[0]:
		return G8Norm(ifi.Cond, true), true
	case from.Succs[1]:
		return G8Norm(ifi.Cond, false), true
	}
	return G8Fact{}, false
}

// G8Lift extends an acceptance predicate to boolean phis used as branch conditions
// (`ok := a && b; if ok`): the fact "phi == pol" is accepted when every incoming edge that can
// yield pol carries an accepted fact (its value, the edge into the phi, or a guard of the
// predecessor).
func G8Lift(acc func(G8Fact) bool) func(G8Fact) bool {
	var lifted func(f G8Fact, depth int) bool
	onStack := map[*ssa.Phi]bool{}
	lifted = func(f G8Fact, depth int) bool {
		if acc(f) {
			return true
		}
		if f.Nil || depth > 8 {
			return false
		}
		ph, ok := f.V.(*ssa.Phi)
		if !ok || !isBoolT(ph.Type()) {
			return false
		}
		if onStack[ph] {
			// loop-carried flag (`found := false; for … { if c { found = true } }`): the value can
			// only become pol through a constant edge, which is judged where it enters
			return true
		}
		onStack[ph] = true
		defer delete(onStack, ph)
		for i, e := range ph.Edges {
			if c, isC := ConstBool(e); isC && c != f.Pol {
				continue // this edge cannot produce the polarity
			}
			if _, isC := ConstBool(e); !isC && lifted(G8Norm(e, f.Pol), depth+1) {
				continue
			}
			pred := ph.Block().Preds[i]
			okEdge := false
			if ef, has := G8EdgeFact(pred, ph.Block()); has && lifted(ef, depth+1) {
				okEdge = true
			}
			for _, g := range Guards(pred) {
				if !okEdge && lifted(G8Norm(g.Cond, g.Polarity), depth+1) {
					okEdge = true
				}
			}
			if !okEdge {
				return false
			}
		}
		return true
	}
	return func(f G8Fact) bool { return lifted(f, 0) }
}

// G8AcceptingEdges lists the CFG edges of fn whose fact is accepted by acc.
func G8AcceptingEdges(fn *ssa.Function, acc func(G8Fact) bool) map[Edge]bool {
	acc = G8Lift(acc)
	out := map[Edge]bool{}
	for _, b := range fn.Blocks {
		for _, s := range b.Succs {
			if f, ok := G8EdgeFact(b, s); ok && acc(f) {
				out[Edge{b, s}] = true
			}
		}
	}
	return out
}

// G8MustPass reports whether every CFG path from the entry of target's function to target
// takes at least one edge whose fact acc accepts (K4 must-pass-through). Facts concern SSA
// values, so a fact established on an edge still holds at the target.
func G8MustPass(target ssa.Instruction, acc func(G8Fact) bool) bool {
	fn := target.Parent()
	if fn == nil || len(fn.Blocks) == 0 {
		return false
	}
	blocked := G8AcceptingEdges(fn, acc)
	return !Reach(fn.Blocks[0], blocked, nil)[target.Block()]
}

// G8Witness is one way a function can return the outcome asked for: the returned leaf value
// (a constant, or a value whose own truth/nil-ness is the outcome), the return instruction and
// the phi edges the value travelled through.
type G8Witness struct {
	Fn       *ssa.Function
	Ret      *ssa.Return
	Leaf     ssa.Value
	LeafFact *G8Fact // nil for constant leaves
	Via      []Edge  // phi edges (pred -> phi block), in execution order
}

// Pos is a position for diagnostics: the leaf if it has one, else the return.
func (w G8Witness) Pos() token.Pos {
	if in, ok := w.Leaf.(ssa.Instruction); ok && in.Pos().IsValid() {
		return in.Pos()
	}
	for i := len(w.Via) - 1; i >= 0; i-- {
		b := w.Via[i].From
		if n := len(b.Instrs); n > 0 && b.Instrs[n-1].Pos().IsValid() {
			return b.Instrs[n-1].Pos()
		}
	}
	return w.Ret.Pos()
}

// Passes reports whether the outcome can only be produced under an accepted fact: the leaf's
// own fact is accepted, or every CFG path from the entry through the witness's phi edges to
// the return takes an accepted edge.
func (w G8Witness) Passes(acc func(G8Fact) bool) bool {
	if w.LeafFact != nil && G8Lift(acc)(*w.LeafFact) {
		return true
	}
	blocked := G8AcceptingEdges(w.Fn, acc)
	start := w.Fn.Blocks[0]
	for _, e := range w.Via {
		if !Reach(start, blocked, nil)[e.From] || blocked[e] {
			return true
		}
		start = e.To
	}
	return !Reach(start, blocked, nil)[w.Ret.Block()]
}

// G8Witnesses enumerates the ways fn's result idx can be `want`: for a bool result
// want=true/false; for an error/pointer/interface result (nilKind) want=true means nil.
func G8Witnesses(fn *ssa.Function, idx int, want bool) []G8Witness {
	var out []G8Witness
	if fn == nil || fn.Signature.Results().Len() <= idx {
		return nil
	}
	nilKind := !isBoolT(fn.Signature.Results().At(idx).Type())
	for _, ret := range Returns(fn) {
		if ret.Block() == fn.Recover {
			continue
		}
		v := ReturnResult(ret, idx)
		if v == nil {
			continue
		}
		seen := map[ssa.Value]bool{}
		var expand func(v ssa.Value, want bool, via []Edge, at *ssa.BasicBlock)
		expand = func(v ssa.Value, want bool, via []Edge, at *ssa.BasicBlock) {
			switch x := v.(type) {
			case *ssa.Const:
				if nilKind {
					if (x.Value == nil) == want {
						out = append(out, G8Witness{Fn: fn, Ret: ret, Leaf: v, Via: via})
					}
					return
				}
				if b, ok := ConstBool(x); ok {
					if b == want {
						out = append(out, G8Witness{Fn: fn, Ret: ret, Leaf: v, Via: via})
					}
					return
				}
			case *ssa.UnOp:
				if x.Op == token.NOT && !nilKind {
					expand(x.X, !want, via, at)
					return
				}
			case *ssa.Phi:
				if seen[x] {
					return
				}
				seen[x] = true
				for i, e := range x.Edges {
					// walking backwards, a nested phi executes earlier: prepend to keep
					// execution order
					nv := append([]Edge{{From: x.Block().Preds[i], To: x.Block()}}, via...)
					expand(e, want, nv, x.Block().Preds[i])
				}
				return
			case *ssa.MakeInterface:
				if nilKind {
					if !want {
						out = append(out, G8Witness{Fn: fn, Ret: ret, Leaf: v, Via: via})
					}
					return
				}
			case *ssa.Call:
				if nilKind {
					c := CalleeOf(x)
					if (c.Pkg == "fmt" && c.Name == "Errorf") || (c.Pkg == "errors" && c.Name == "New") {
						if !want {
							out = append(out, G8Witness{Fn: fn, Ret: ret, Leaf: v, Via: via})
						}
						return
					}
				}
			}
			f := G8Fact{V: v, Pol: want, Nil: nilKind}
			if !nilKind {
				f = G8Norm(v, want)
			}
			// infeasible: the dominating guards already say the opposite about this very value
			for _, g := range Guards(at) {
				gf := G8Norm(g.Cond, g.Polarity)
				if gf.V == f.V && gf.Nil == f.Nil && gf.Pol != f.Pol {
					return
				}
			}
			if len(via) > 0 {
				if ef, ok := G8EdgeFact(via[0].From, via[0].To); ok && ef.V == f.V && ef.Nil == f.Nil && ef.Pol != f.Pol {
					return
				}
			}
			out = append(out, G8Witness{Fn: fn, Ret: ret, Leaf: v, LeafFact: &f, Via: via})
		}
		expand(v, want, nil, ret.Block())
	}
	return out
}

func isBoolT(t types.Type) bool {
	b, ok := t.Underlying().(*types.Basic)
	return ok && b.Kind() == types.Bool
}

// G8Derives reports whether v is computed from a value accepted by isRoot: backward walk over
// operands (including call arguments and receivers), loads of locals through the stores into
// them, and closure free variables through their bindings. It over-approximates data
// dependence (it is used for positive requirements "X comes from Y").
func G8Derives(v ssa.Value, isRoot func(ssa.Value) bool) bool {
	seen := map[ssa.Value]bool{}
	var walk func(v ssa.Value) bool
	walk = func(v ssa.Value) bool {
		if v == nil || seen[v] {
			return false
		}
		seen[v] = true
		if isRoot(v) {
			return true
		}
		switch x := v.(type) {
		case *ssa.Const, *ssa.Global, *ssa.Function, *ssa.Builtin, *ssa.Parameter:
			return false
		case *ssa.FreeVar:
			fn := x.Parent()
			par := fn.Parent()
			if par == nil {
				return false
			}
			idx := -1
			for i, fv := range fn.FreeVars {
				if fv == x {
					idx = i
				}
			}
			found := false
			Instrs(par, func(in ssa.Instruction) {
				if mc, ok := in.(*ssa.MakeClosure); ok && mc.Fn == fn && idx >= 0 && idx < len(mc.Bindings) {
					if walk(mc.Bindings[idx]) {
						found = true
					}
				}
			})
			return found
		case *ssa.Alloc:
			return walkWriters(x, walk)
		}
		in, ok := v.(ssa.Instruction)
		if !ok {
			return false
		}
		for _, op := range in.Operands(nil) {
			if op != nil && *op != nil && walk(*op) {
				return true
			}
		}
		return false
	}
	return walk(v)
}

// walkWriters visits the values stored into memory rooted at an Alloc (and the arguments of
// calls that receive its address and may write through it).
func walkWriters(root ssa.Value, walk func(ssa.Value) bool) bool {
	seen := map[ssa.Value]bool{}
	var rec func(a ssa.Value) bool
	rec = func(a ssa.Value) bool {
		if seen[a] || a.Referrers() == nil {
			return false
		}
		seen[a] = true
		for _, r := range *a.Referrers() {
			switch rr := r.(type) {
			case *ssa.Store:
				if rr.Addr == a && walk(rr.Val) {
					return true
				}
			case *ssa.FieldAddr:
				if rr.X == a && rec(rr) {
					return true
				}
			case *ssa.IndexAddr:
				if rr.X == a && rec(rr) {
					return true
				}
			case *ssa.Slice:
				if rr.X == a && rec(rr) {
					return true
				}
			case ssa.CallInstruction:
				args := rr.Common().Args
				isArg := false
				for _, x := range args {
					if x == a {
						isArg = true
					}
				}
				if isArg {
					for _, x := range args {
						if x != a && walk(x) {
							return true
						}
					}
				}
			}
		}
		return false
	}
	return rec(root)
}

// G8Unwrap strips ChangeType/MakeInterface/ChangeInterface (not Convert) wrappers.
func G8Unwrap(v ssa.Value) ssa.Value {
	for {
		switch x := v.(type) {
		case *ssa.ChangeType:
			v = x.X
		case *ssa.MakeInterface:
			v = x.X
		case *ssa.ChangeInterface:
			v = x.X
		default:
			return v
		}
	}
}

// G8FuncOfValue resolves a function-typed SSA value to the function whose body runs: a
// *ssa.Function, a closure, or a bound-method wrapper (resolved to the method). nil if unknown.
func G8FuncOfValue(p *Program, v ssa.Value) *ssa.Function {
	v = G8Unwrap(v)
	var fn *ssa.Function
	switch x := v.(type) {
	case *ssa.Function:
		fn = x
	case *ssa.MakeClosure:
		fn, _ = x.Fn.(*ssa.Function)
	}
	if fn == nil {
		return nil
	}
	if fn.Blocks == nil || fn.Synthetic != "" {
		if o, ok := fn.Object().(*types.Func); ok {
			if real := p.SSA.FuncValue(o); real != nil {
				return real
			}
		}
	}
	return fn
}

// G8LoadOfField: v is a load *(&base.f) (or Field extraction) of a field named name declared
// in a struct of the named type pkgPath.typeName. Returns the base.
func G8LoadOfField(v ssa.Value, pkgPath, typeName, name string) (ssa.Value, bool) {
	f, base := LoadedField(v)
	if f == nil || f.Name() != name || base == nil {
		return nil, false
	}
	t := base.Type()
	if p, ok := t.Underlying().(*types.Pointer); ok {
		t = p.Elem()
	}
	n, ok := t.(*types.Named)
	if !ok || n.Obj().Pkg() == nil || n.Obj().Pkg().Path() != PkgPath(pkgPath) || n.Obj().Name() != typeName {
		return nil, false
	}
	return base, true
}
