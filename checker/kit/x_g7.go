package kit

// Generic helpers added with the SOCKS5 rule sets (C21–C23): normalised guards, guards on a
// CFG edge, per-return leaves of a result with the guards that hold for each leaf, and a tiny
// linear-form normaliser over integer SSA expressions.

import (
	"go/token"
	"go/types"
	"sort"

	"golang.org/x/tools/go/ssa"
)

// StripNot removes any number of leading `!` from a boolean value and reports whether the
// number removed was odd.
func StripNot(v ssa.Value) (ssa.Value, bool) {
	neg := false
	for {
		u, ok := v.(*ssa.UnOp)
		if !ok || u.Op != token.NOT {
			return v, neg
		}
		neg = !neg
		v = u.X
	}
}

// NormGuard returns the guard with leading negations folded into the polarity.
func NormGuard(g Guard) Guard {
	c, neg := StripNot(g.Cond)
	if neg {
		return Guard{Cond: c, Polarity: !g.Polarity, If: g.If}
	}
	return g
}

// NormGuards normalises every guard of the list (see NormGuard).
func NormGuards(gs []Guard) []Guard {
	out := make([]Guard, 0, len(gs))
	for _, g := range gs {
		out = append(out, NormGuard(g))
	}
	return out
}

// G7EdgeGuards returns the (normalised) conditions that hold when control flows along the CFG
// edge pred→succ: the guards of pred plus, when pred ends in an If that separates succ from its
// other successor, that condition with the polarity of the edge.
func G7EdgeGuards(pred, succ *ssa.BasicBlock) []Guard {
	gs := NormGuards(Guards(pred))
	if n := len(pred.Instrs); n > 0 {
		if ifi, ok := pred.Instrs[n-1].(*ssa.If); ok && len(pred.Succs) == 2 && pred.Succs[0] != pred.Succs[1] {
			switch succ {
			case pred.Succs[0]:
				gs = append(gs, NormGuard(Guard{Cond: ifi.Cond, Polarity: true, If: ifi}))
			case pred.Succs[1]:
				gs = append(gs, NormGuard(Guard{Cond: ifi.Cond, Polarity: false, If: ifi}))
			}
		}
	}
	return gs
}

// ResultLeaf is one non-phi value a function result can take at one return, with the
// conditions known to hold whenever that value is the one returned.
type ResultLeaf struct {
	Ret    *ssa.Return
	Val    ssa.Value
	Guards []Guard // normalised
	Block  *ssa.BasicBlock
}

// ResultLeaves expands result idx of every return of fn through phi nodes. Each leaf carries
// the guards of the return block, of the phi edge it arrived by and of its defining block.
func ResultLeaves(fn *ssa.Function, idx int) []ResultLeaf {
	var out []ResultLeaf
	for _, ret := range Returns(fn) {
		if ret.Block() == fn.Recover {
			continue
		}
		v := ReturnResult(ret, idx)
		if v == nil {
			continue
		}
		base := NormGuards(Guards(ret.Block()))
		out = append(out, ValueLeaves(v, base, ret)...)
	}
	return out
}

// ValueLeaves expands v through phis; base are guards valid at the use.
func ValueLeaves(v ssa.Value, base []Guard, ret *ssa.Return) []ResultLeaf {
	var out []ResultLeaf
	seen := map[*ssa.Phi]bool{}
	var rec func(v ssa.Value, gs []Guard, blk *ssa.BasicBlock)
	rec = func(v ssa.Value, gs []Guard, blk *ssa.BasicBlock) {
		if p, ok := v.(*ssa.Phi); ok {
			if seen[p] {
				return
			}
			seen[p] = true
			for i, e := range p.Edges {
				pred := p.Block().Preds[i]
				g2 := append(append([]Guard{}, gs...), G7EdgeGuards(pred, p.Block())...)
				rec(e, g2, pred)
			}
			return
		}
		g2 := gs
		if in, ok := v.(ssa.Instruction); ok && in.Block() != nil {
			g2 = append(append([]Guard{}, gs...), NormGuards(Guards(in.Block()))...)
		}
		out = append(out, ResultLeaf{Ret: ret, Val: v, Guards: g2, Block: blk})
	}
	var blk *ssa.BasicBlock
	if ret != nil {
		blk = ret.Block()
	}
	rec(v, base, blk)
	return out
}

// ---------- linear forms ----------

// G7Linear is c0 + Σ coef·sym over integer SSA values. Symbols are opaque SSA values (len(x) is
// keyed by the Call to the builtin; use LenOf to recognise it).
type G7Linear struct {
	Const int64
	Terms map[ssa.Value]int64
}

// G7LinearOf normalises an integer SSA expression: constants, +, -, multiplication by a
// constant and integer conversions that cannot change a small non-negative value (widening
// or same-size conversions) are interpreted; everything else is a symbol. canon, when
// non-nil, maps a symbol to its canonical representative (e.g. all len(x) of one x to one
// value).
func G7LinearOf(v ssa.Value, canon func(ssa.Value) ssa.Value) G7Linear {
	l := G7Linear{Terms: map[ssa.Value]int64{}}
	var add func(v ssa.Value, k int64)
	add = func(v ssa.Value, k int64) {
		if c, ok := ConstInt(v); ok {
			if _, isConst := v.(*ssa.Const); isConst {
				l.Const += k * c
				return
			}
		}
		switch x := v.(type) {
		case *ssa.BinOp:
			switch x.Op {
			case token.ADD:
				add(x.X, k)
				add(x.Y, k)
				return
			case token.SUB:
				add(x.X, k)
				add(x.Y, -k)
				return
			case token.MUL:
				if c, ok := constOnly(x.Y); ok {
					add(x.X, k*c)
					return
				}
				if c, ok := constOnly(x.X); ok {
					add(x.Y, k*c)
					return
				}
			}
		case *ssa.Convert:
			if widening(x) {
				add(x.X, k)
				return
			}
		case *ssa.ChangeType:
			add(x.X, k)
			return
		}
		if canon != nil {
			v = canon(v)
		}
		l.Terms[v] += k
		if l.Terms[v] == 0 {
			delete(l.Terms, v)
		}
	}
	add(v, 1)
	return l
}

func constOnly(v ssa.Value) (int64, bool) {
	if _, ok := v.(*ssa.Const); !ok {
		return 0, false
	}
	return ConstInt(v)
}

// widening: integer→integer conversion whose result equals the operand for every operand
// value (unsigned→wider, or any→same/wider signedness-compatible type).
func widening(c *ssa.Convert) bool {
	from, ok1 := c.X.Type().Underlying().(*types.Basic)
	to, ok2 := c.Type().Underlying().(*types.Basic)
	if !ok1 || !ok2 || from.Info()&types.IsInteger == 0 || to.Info()&types.IsInteger == 0 {
		return false
	}
	fs, ts := intBits(from), intBits(to)
	fu, tu := from.Info()&types.IsUnsigned != 0, to.Info()&types.IsUnsigned != 0
	switch {
	case fu && tu:
		return ts >= fs
	case fu && !tu:
		return ts > fs
	case !fu && !tu:
		return ts >= fs
	}
	return false
}

func intBits(b *types.Basic) int {
	switch b.Kind() {
	case types.Int8, types.Uint8:
		return 8
	case types.Int16, types.Uint16:
		return 16
	case types.Int32, types.Uint32:
		return 32
	}
	return 64
}

// Sub returns a-b.
func (a G7Linear) Sub(b G7Linear) G7Linear {
	out := G7Linear{Const: a.Const - b.Const, Terms: map[ssa.Value]int64{}}
	for k, v := range a.Terms {
		out.Terms[k] = v
	}
	for k, v := range b.Terms {
		out.Terms[k] -= v
		if out.Terms[k] == 0 {
			delete(out.Terms, k)
		}
	}
	return out
}

// AddConst returns a+c.
func (a G7Linear) AddConst(c int64) G7Linear {
	out := G7Linear{Const: a.Const + c, Terms: map[ssa.Value]int64{}}
	for k, v := range a.Terms {
		out.Terms[k] = v
	}
	return out
}

// IsConst reports whether the form has no symbolic term.
func (a G7Linear) IsConst() bool { return len(a.Terms) == 0 }

// Syms lists the symbols in a deterministic order.
func (a G7Linear) Syms() []ssa.Value {
	var out []ssa.Value
	for k := range a.Terms {
		out = append(out, k)
	}
	sort.Slice(out, func(i, j int) bool { return out[i].Name() < out[j].Name() })
	return out
}

// LenOf: if v is len(x) (builtin call) returns x.
func LenOf(v ssa.Value) (ssa.Value, bool) {
	c, ok := v.(*ssa.Call)
	if !ok {
		return nil, false
	}
	if b, ok := c.Call.Value.(*ssa.Builtin); ok && b.Name() == "len" && len(c.Call.Args) == 1 {
		return c.Call.Args[0], true
	}
	return nil, false
}

// ---------- function values ----------

// one-entry cache: only the most recently analysed program is kept (self-tests load many)
var (
	g7RefsProg *Program
	g7RefsIdx  map[*ssa.Function][]ssa.Instruction
)

// g7WrapperTarget: f is a synthetic wrapper (bound method value h.m, method expression thunk);
// returns the declared function it forwards to.
func g7WrapperTarget(f *ssa.Function) *ssa.Function {
	if f == nil || f.Synthetic == "" {
		return nil
	}
	for _, b := range f.Blocks {
		for _, in := range b.Instrs {
			if c, ok := in.(ssa.CallInstruction); ok {
				if callee := c.Common().StaticCallee(); callee != nil {
					return callee
				}
			}
		}
	}
	return nil
}

// G7ValueRefs returns the instructions of repository code that use fn as a value (method value
// h.m, function name assigned to a variable or stored in a table, passed as an argument) rather
// than calling it directly. A function referenced this way can be invoked wherever the value
// flows, at the earliest when the reference is evaluated.
func (p *Program) G7ValueRefs(fn *ssa.Function) []ssa.Instruction {
	idx := g7RefsIdx
	if g7RefsProg != p {
		idx = map[*ssa.Function][]ssa.Instruction{}
		for _, f := range p.RepoFuncs() {
			Instrs(f, func(in ssa.Instruction) {
				var callee ssa.Value
				if ci, isCall := in.(ssa.CallInstruction); isCall && !ci.Common().IsInvoke() {
					callee = ci.Common().Value
				}
				for _, op := range in.Operands(nil) {
					if op == nil || *op == nil {
						continue
					}
					fv, isFn := (*op).(*ssa.Function)
					if !isFn || *op == callee {
						continue
					}
					target := fv
					if fv.Synthetic != "" {
						target = g7WrapperTarget(fv)
					} else if fv.Parent() != nil {
						continue // an ordinary function literal: it is its own code, not a reference
					}
					if target != nil {
						idx[target] = append(idx[target], in)
					}
				}
			})
		}
		g7RefsProg, g7RefsIdx = p, idx
	}
	return idx[fn]
}
