package kit

import (
	"go/token"
	"go/types"

	"golang.org/x/tools/go/ssa"
)

// Helpers added for the C31-C34 rule sets (group g11). Generic: nothing here names a
// repository construct.

// StripConv strips value-preserving wrappers (Convert, ChangeType) from v.
func StripConv(v ssa.Value) ssa.Value {
	for {
		switch x := v.(type) {
		case *ssa.Convert:
			v = x.X
		case *ssa.ChangeType:
			v = x.X
		default:
			return v
		}
	}
}

// IsLoadOfField reports whether v (after StripConv) is a load of struct field f.
func IsLoadOfField(v ssa.Value, f *types.Var) bool {
	if f == nil {
		return false
	}
	lf, _ := LoadedField(StripConv(v))
	return lf == f
}

// condAtom is the canonical form of an atomic branch condition: `x == y` and `x != y` over the
// same operands share one atom (with opposite truth), everything else is its own atom.
type condAtom struct {
	x, y ssa.Value
	eq   bool
}

func canonAtom(v ssa.Value) (condAtom, bool) {
	if b, ok := v.(*ssa.BinOp); ok && (b.Op == token.EQL || b.Op == token.NEQ) {
		return condAtom{b.X, b.Y, true}, b.Op == token.NEQ
	}
	return condAtom{x: v}, false
}

// PathAvoiding searches for a CFG path from the entry of fn to instruction target on which no
// instruction satisfying avoid executes. Branch conditions are treated as atoms that keep one
// truth value along the path (an SSA value is immutable), negation and constant / phi-selected
// booleans are interpreted, `x == y` and `x != y` are tied together. Blocks are visited at
// most once per path. It returns a witness path when one exists.
//
// "No such path" therefore means: whenever target executes, an avoid-instruction executed
// before it (dominance, a boolean flag set next to it, or a repeated test of the same
// condition all qualify).
func PathAvoiding(fn *ssa.Function, target ssa.Instruction, avoid func(ssa.Instruction) bool) ([]*ssa.BasicBlock, bool) {
	return PathAvoidingIf(fn, target, avoid, nil, false)
}

// PathAvoidingIf is PathAvoiding with an additional requirement on the witness: when cond is
// non-nil, the boolean cond must be able to have the value want at target under the path's
// assignment (a constant or phi-selected constant of the other value disqualifies the path).
func PathAvoidingIf(fn *ssa.Function, target ssa.Instruction, avoid func(ssa.Instruction) bool, cond ssa.Value, want bool) ([]*ssa.BasicBlock, bool) {
	if fn == nil || len(fn.Blocks) == 0 {
		return nil, false
	}
	type env struct {
		assign map[condAtom]bool
		from   map[*ssa.BasicBlock]*ssa.BasicBlock
		// boolean locals that live in memory (named results, variables captured by a deferred
		// closure): value last stored on the path, and the value each load saw
		mem   map[*ssa.Alloc]ssa.Value
		loads map[*ssa.UnOp]ssa.Value
	}
	// tracked: bool allocs whose address is only stored to / loaded from
	tracked := map[*ssa.Alloc]bool{}
	for _, b := range fn.Blocks {
		for _, in := range b.Instrs {
			a, ok := in.(*ssa.Alloc)
			if !ok || a.Referrers() == nil {
				continue
			}
			if bt, isB := a.Type().(*types.Pointer).Elem().Underlying().(*types.Basic); !isB || bt.Kind() != types.Bool {
				continue
			}
			okRefs := true
			for _, rf := range *a.Referrers() {
				switch x := rf.(type) {
				case *ssa.Store:
					if x.Addr != ssa.Value(a) {
						okRefs = false
					}
				case *ssa.UnOp:
					if x.Op != token.MUL {
						okRefs = false
					}
				case *ssa.DebugRef:
				default:
					okRefs = false
				}
			}
			if okRefs {
				tracked[a] = true
			}
		}
	}
	var path []*ssa.BasicBlock
	onPath := map[*ssa.BasicBlock]bool{}
	steps := 0
	exhausted := false

	// resolve reduces v to (atom, negated) or a known constant.
	var resolve func(v ssa.Value, e *env, depth int) (at condAtom, neg bool, constVal bool, isConst bool, ok bool)
	resolve = func(v ssa.Value, e *env, depth int) (condAtom, bool, bool, bool, bool) {
		if depth > 20 {
			return condAtom{}, false, false, false, false
		}
		switch x := v.(type) {
		case *ssa.Const:
			if b, ok := ConstBool(x); ok {
				return condAtom{}, false, b, true, true
			}
		case *ssa.UnOp:
			if x.Op == token.NOT {
				at, neg, cv, ic, ok := resolve(x.X, e, depth+1)
				return at, !neg, !cv, ic, ok
			}
			if x.Op == token.MUL {
				if a, isA := x.X.(*ssa.Alloc); isA && tracked[a] {
					if v, seen := e.loads[x]; seen {
						if v == nil {
							return condAtom{}, false, false, true, true // zero value
						}
						return resolve(v, e, depth+1)
					}
				}
			}
		case *ssa.Phi:
			pred := e.from[x.Block()]
			if pred == nil {
				return condAtom{}, false, false, false, false
			}
			for i, p := range x.Block().Preds {
				if p == pred {
					return resolve(x.Edges[i], e, depth+1)
				}
			}
			return condAtom{}, false, false, false, false
		}
		at, neg := canonAtom(v)
		return at, neg, false, false, true
	}

	var walk func(b, from *ssa.BasicBlock, e *env) bool
	walk = func(b, from *ssa.BasicBlock, e *env) bool {
		steps++
		if steps > 200000 {
			exhausted = true
			return false
		}
		if onPath[b] {
			return false
		}
		onPath[b] = true
		path = append(path, b)
		e.from[b] = from
		defer func() {
			onPath[b] = false
			delete(e.from, b)
		}()
		pop := func() { path = path[:len(path)-1] }
		// memory effects of this block are undone when the block is left
		var memUndo []func()
		defer func() {
			for i := len(memUndo) - 1; i >= 0; i-- {
				memUndo[i]()
			}
		}()
		for _, in := range b.Instrs {
			switch x := in.(type) {
			case *ssa.Alloc:
				if tracked[x] {
					old, had := e.mem[x]
					e.mem[x] = nil
					memUndo = append(memUndo, func() {
						if had {
							e.mem[x] = old
						} else {
							delete(e.mem, x)
						}
					})
				}
			case *ssa.Store:
				if a, ok := x.Addr.(*ssa.Alloc); ok && tracked[a] {
					old, had := e.mem[a]
					e.mem[a] = x.Val
					memUndo = append(memUndo, func() {
						if had {
							e.mem[a] = old
						} else {
							delete(e.mem, a)
						}
					})
				}
			case *ssa.UnOp:
				if a, ok := x.X.(*ssa.Alloc); ok && x.Op == token.MUL && tracked[a] {
					if v, known := e.mem[a]; known {
						// remember what this load saw; a stored load is looked through
						if l2, isLoad := v.(*ssa.UnOp); isLoad {
							if v2, seen := e.loads[l2]; seen {
								v = v2
							}
						}
						e.loads[x] = v
						memUndo = append(memUndo, func() { delete(e.loads, x) })
					}
				}
			}
			if in == target {
				if cond != nil {
					at, neg, cv, isConst, ok := resolve(cond, e, 0)
					if ok && isConst && cv != want {
						pop()
						return false
					}
					if ok && !isConst {
						if have, known := e.assign[at]; known && (have != neg) != want {
							pop()
							return false
						}
					}
				}
				return true
			}
			if avoid(in) {
				pop()
				return false
			}
		}
		if len(b.Instrs) == 0 {
			pop()
			return false
		}
		switch last := b.Instrs[len(b.Instrs)-1].(type) {
		case *ssa.Jump:
			if walk(b.Succs[0], b, e) {
				return true
			}
		case *ssa.If:
			at, neg, cv, isConst, ok := resolve(last.Cond, e, 0)
			try := func(val bool) bool {
				succ := b.Succs[1]
				if val {
					succ = b.Succs[0]
				}
				return walk(succ, b, e)
			}
			switch {
			case !ok:
				// uninterpreted: both edges are possible, nothing is recorded
				if try(true) || try(false) {
					return true
				}
			case isConst:
				if try(cv) {
					return true
				}
			default:
				if have, known := e.assign[at]; known {
					if try(have != neg) {
						return true
					}
				} else {
					for _, val := range []bool{true, false} {
						e.assign[at] = val != neg
						if try(val) {
							return true
						}
					}
					delete(e.assign, at)
				}
			}
		}
		pop()
		return false
	}
	e := &env{assign: map[condAtom]bool{}, from: map[*ssa.BasicBlock]*ssa.BasicBlock{}, mem: map[*ssa.Alloc]ssa.Value{}, loads: map[*ssa.UnOp]ssa.Value{}}
	if walk(fn.Blocks[0], nil, e) {
		out := append([]*ssa.BasicBlock(nil), path...)
		return out, true
	}
	if exhausted {
		return nil, true // search budget exceeded: never claim "no path"
	}
	return nil, false
}

// EdgeGuards returns the conditions known to hold when control flows along the CFG edge
// pred -> succ: the guards of pred plus, if pred ends in an If with distinct successors, that
// If's own condition with the polarity of the edge.
func EdgeGuards(pred, succ *ssa.BasicBlock) []Guard {
	out := append([]Guard(nil), Guards(pred)...)
	if len(pred.Instrs) == 0 {
		return out
	}
	if ifi, ok := pred.Instrs[len(pred.Instrs)-1].(*ssa.If); ok && pred.Succs[0] != pred.Succs[1] {
		switch succ {
		case pred.Succs[0]:
			out = append(out, Guard{ifi.Cond, true, ifi})
		case pred.Succs[1]:
			out = append(out, Guard{ifi.Cond, false, ifi})
		}
	}
	return out
}

// FlattenMul returns the factors of a product, looking through conversions.
func FlattenMul(v ssa.Value) []ssa.Value {
	s := StripConv(v)
	if b, ok := s.(*ssa.BinOp); ok && b.Op == token.MUL {
		return append(FlattenMul(b.X), FlattenMul(b.Y)...)
	}
	return []ssa.Value{s}
}
