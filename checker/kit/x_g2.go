package kit

import (
	"fmt"
	"os"
)

// DumpObs prints every obligation recorded so far when MMVERIFY_DUMP is set (rule debugging
// aid; not part of the verdict).
func DumpObs(r *Report) {
	if os.Getenv("MMVERIFY_DUMP") == "" {
		return
	}
	for _, o := range r.Obs {
		fmt.Printf("  [%s] %s | %s | %s | %s\n", o.Status, o.Rule, o.Key, o.Pos, o.Detail)
	}
}
