package kit

import (
	"go/token"
	"go/types"

	"golang.org/x/tools/go/ssa"
)

// ---------- generic helpers added for C03/C04 (group g1) ----------

// ArgSite is the value bound to one parameter at one call-graph edge.
type ArgSite struct {
	Site   ssa.CallInstruction
	Caller *ssa.Function
	Arg    ssa.Value
}

// ParamIndex returns the index of prm in its function's Params (receiver included), or -1.
func ParamIndex(prm *ssa.Parameter) int {
	if prm == nil || prm.Parent() == nil {
		return -1
	}
	for i, q := range prm.Parent().Params {
		if q == prm {
			return i
		}
	}
	return -1
}

// ArgAt returns the value bound to Params[pi] of the callee at site (static call, go, defer,
// call of a function value, or interface invocation). nil when it cannot be mapped.
func ArgAt(site ssa.CallInstruction, pi int) ssa.Value {
	if site == nil || pi < 0 {
		return nil
	}
	cc := site.Common()
	if cc.IsInvoke() {
		if pi == 0 {
			return cc.Value
		}
		if pi-1 < len(cc.Args) {
			return cc.Args[pi-1]
		}
		return nil
	}
	if pi < len(cc.Args) {
		return cc.Args[pi]
	}
	return nil
}

// ParamBindings returns the arguments bound to prm at every call-graph edge (VTA) into its
// function: static calls, go/defer statements, interface invocations and calls of function
// values. Edges without a call site (synthetic roots) are skipped. Deterministic order.
func (p *Program) ParamBindings(prm *ssa.Parameter) []ArgSite {
	pi := ParamIndex(prm)
	if pi < 0 {
		return nil
	}
	return p.ParamBindingsAt(prm.Parent(), pi)
}

// ParamBindingsAt is ParamBindings for Params[pi] of fn.
func (p *Program) ParamBindingsAt(fn *ssa.Function, pi int) []ArgSite {
	var out []ArgSite
	seen := map[ssa.CallInstruction]bool{}
	for _, e := range p.CallEdgesInto(fn) {
		if e.Site == nil || seen[e.Site] {
			continue
		}
		seen[e.Site] = true
		a := ArgAt(e.Site, pi)
		if a == nil {
			continue
		}
		out = append(out, ArgSite{Site: e.Site, Caller: e.Site.Parent(), Arg: a})
	}
	sortArgSites(p, out)
	return out
}

// CallSitesInto returns the distinct call sites (with a syntactic site) of the call-graph edges into fn.
func (p *Program) CallSitesInto(fn *ssa.Function) []ssa.CallInstruction {
	var out []ssa.CallInstruction
	seen := map[ssa.CallInstruction]bool{}
	for _, e := range p.CallEdgesInto(fn) {
		if e.Site == nil || seen[e.Site] {
			continue
		}
		seen[e.Site] = true
		out = append(out, e.Site)
	}
	for i := 1; i < len(out); i++ {
		for j := i; j > 0 && siteLess(p, out[j], out[j-1]); j-- {
			out[j], out[j-1] = out[j-1], out[j]
		}
	}
	return out
}

func siteLess(p *Program, a, b ssa.CallInstruction) bool {
	pa, pb := p.Fset.Position(a.Pos()), p.Fset.Position(b.Pos())
	if pa.Filename != pb.Filename {
		return pa.Filename < pb.Filename
	}
	if pa.Offset != pb.Offset {
		return pa.Offset < pb.Offset
	}
	return FuncName(a.Parent()) < FuncName(b.Parent())
}

func sortArgSites(p *Program, s []ArgSite) {
	for i := 1; i < len(s); i++ {
		for j := i; j > 0 && siteLess(p, s[j].Site, s[j-1].Site); j-- {
			s[j], s[j-1] = s[j-1], s[j]
		}
	}
}

// WritesThroughParam reports whether fn stores through its pointer/slice parameter pi
// (directly, or through an element/field address derived from it).
func WritesThroughParam(fn *ssa.Function, pi int) bool {
	if fn == nil || fn.Blocks == nil || pi < 0 || pi >= len(fn.Params) {
		return false
	}
	root := ssa.Value(fn.Params[pi])
	derived := map[ssa.Value]bool{root: true}
	changed := true
	for changed {
		changed = false
		Instrs(fn, func(in ssa.Instruction) {
			v, ok := in.(ssa.Value)
			if !ok || derived[v] {
				return
			}
			switch x := in.(type) {
			case *ssa.IndexAddr:
				if derived[x.X] {
					derived[v], changed = true, true
				}
			case *ssa.FieldAddr:
				if derived[x.X] {
					derived[v], changed = true, true
				}
			case *ssa.Slice:
				if derived[x.X] {
					derived[v], changed = true, true
				}
			case *ssa.Phi:
				for _, e := range x.Edges {
					if derived[e] {
						derived[v], changed = true, true
					}
				}
			}
		})
	}
	found := false
	Instrs(fn, func(in ssa.Instruction) {
		switch x := in.(type) {
		case *ssa.Store:
			if derived[x.Addr] {
				found = true
			}
		case ssa.CallInstruction:
			c := CalleeOf(x)
			args := x.Common().Args
			if (c.Built == "copy" || c.Built == "clear") && len(args) > 0 && derived[args[0]] {
				found = true
			}
		}
	})
	return found
}

// InstrOrdinal returns the 1-based ordinal of in among the instructions of its function
// (closures excluded) for which pred holds, in block order. 0 when in does not satisfy pred.
func InstrOrdinal(in ssa.Instruction, pred func(ssa.Instruction) bool) int {
	n, hit := 0, 0
	Instrs(in.Parent(), func(x ssa.Instruction) {
		if pred(x) {
			n++
			if x == in {
				hit = n
			}
		}
	})
	return hit
}

// StoresTo returns the values stored directly to address a (Store instructions whose Addr is a)
// among a's referrers.
func StoresTo(a ssa.Value) []*ssa.Store {
	var out []*ssa.Store
	if a == nil || a.Referrers() == nil {
		return nil
	}
	for _, r := range *a.Referrers() {
		if st, ok := r.(*ssa.Store); ok && st.Addr == a {
			out = append(out, st)
		}
	}
	return out
}

// IsZeroConst reports whether v is a constant holding the zero value of its type (nil, 0,
// "", false, or the zero aggregate T{}).
func IsZeroConst(v ssa.Value) bool {
	c, ok := v.(*ssa.Const)
	if !ok {
		return false
	}
	if c.Value == nil {
		return true
	}
	if i, ok := ConstInt(v); ok {
		return i == 0
	}
	if b, ok := ConstBool(v); ok {
		return !b
	}
	if s, ok := ConstString(v); ok {
		return s == ""
	}
	return false
}

// SpilledParam: if v is a load of an Alloc whose only store is a Parameter of the same function
// (go/ssa spills address-taken parameters), returns that parameter.
func SpilledParam(v ssa.Value) *ssa.Parameter {
	u, ok := v.(*ssa.UnOp)
	if !ok || u.Op != token.MUL {
		return nil
	}
	a, ok := u.X.(*ssa.Alloc)
	if !ok {
		return nil
	}
	return AllocOfParam(a)
}

// AllocOfParam returns the parameter an Alloc is the spill slot of (single store, of a Parameter), or nil.
func AllocOfParam(a *ssa.Alloc) *ssa.Parameter {
	sts := StoresTo(a)
	if len(sts) != 1 {
		return nil
	}
	prm, _ := sts[0].Val.(*ssa.Parameter)
	return prm
}

// FieldOwners maps every field of every named struct type declared in pkg to its named type.
func (p *Program) FieldOwners(pkg string) map[*types.Var]*types.Named {
	out := map[*types.Var]*types.Named{}
	pk := p.Package(pkg)
	if pk == nil || pk.Types == nil {
		return out
	}
	sc := pk.Types.Scope()
	for _, name := range sc.Names() {
		tn, ok := sc.Lookup(name).(*types.TypeName)
		if !ok {
			continue
		}
		n, ok := tn.Type().(*types.Named)
		if !ok {
			continue
		}
		for _, f := range StructFields(n) {
			out[f] = n
		}
	}
	return out
}
