// Package kit is the shared static-analysis toolkit used by the per-property
// rules: loading of /repo into type-checked syntax + SSA, call graph, lookups,
// dominance guards, lock regions, provenance slices and field write-sets.
//
// Nothing here executes code from /repo. Everything is derived from the
// type-checked source as it is on disk at the time of the run.
package kit

import (
	"fmt"
	"go/ast"
	"go/token"
	"go/types"
	"os"
	"sort"
	"strings"
	"time"

	"golang.org/x/tools/go/callgraph"
	"golang.org/x/tools/go/callgraph/cha"
	"golang.org/x/tools/go/callgraph/vta"
	"golang.org/x/tools/go/packages"
	"golang.org/x/tools/go/ssa"
	"golang.org/x/tools/go/ssa/ssautil"
)

// Module is the module path of the repository under analysis.
const Module = "github.com/postalsys/muti-metroo"

// RepoDir is where the repository lives. Overridable for self-tests.
var RepoDir = "/repo"

// LoadConfig selects what is loaded.
type LoadConfig struct {
	// Patterns relative to RepoDir, e.g. "./internal/crypto". Empty = "./internal/...", "./cmd/muti-metroo/...".
	Patterns []string
	GOOS     string            // "" = linux
	Overlay  map[string][]byte // file path -> replacement contents (self-tests only)
	Dir      string            // "" = RepoDir
}

// Program is a loaded, type-checked, SSA-built snapshot of the repository.
type Program struct {
	Fset     *token.FileSet
	Pkgs     []*packages.Package          // root packages (the patterns)
	All      map[string]*packages.Package // every package, by path
	SSA      *ssa.Program
	SSAPkgs  map[string]*ssa.Package
	LoadTime time.Duration
	GOOS     string

	cg         *callgraph.Graph
	repoFns    []*ssa.Function
	fieldIdx   *fieldIndex
	callersIdx map[*ssa.Function][]ssa.CallInstruction
}

// Pkg resolves "internal/crypto" or a full import path to the full path.
func PkgPath(short string) string {
	if strings.HasPrefix(short, Module) || !strings.Contains(short, "/") && !strings.HasPrefix(short, "internal") && !strings.HasPrefix(short, "cmd") {
		return short
	}
	if strings.HasPrefix(short, "internal/") || strings.HasPrefix(short, "cmd/") {
		return Module + "/" + short
	}
	return short
}

// Load loads the repository. Any type error or list error is fatal for the
// check (returned as error): a tree that does not type-check cannot be judged.
func Load(lc LoadConfig) (*Program, error) {
	start := time.Now()
	dir := lc.Dir
	if dir == "" {
		dir = RepoDir
	}
	pats := lc.Patterns
	if len(pats) == 0 {
		pats = []string{"./internal/...", "./cmd/muti-metroo/..."}
	}
	goos := lc.GOOS
	if goos == "" {
		goos = "linux"
	}
	env := []string{}
	for _, e := range os.Environ() {
		k := strings.SplitN(e, "=", 2)[0]
		switch k {
		case "GOFLAGS", "GOPROXY", "GOWORK", "GOOS", "GOARCH", "CGO_ENABLED", "GOSUMDB", "GOTOOLCHAIN":
			continue
		}
		env = append(env, e)
	}
	env = append(env, "GOFLAGS=-mod=mod", "GOPROXY=off", "GOWORK=off", "GOOS="+goos, "GOARCH=amd64", "CGO_ENABLED=0")
	fset := token.NewFileSet()
	cfg := &packages.Config{
		Mode:    packages.LoadAllSyntax,
		Dir:     dir,
		Env:     env,
		Fset:    fset,
		Tests:   false,
		Overlay: lc.Overlay,
	}
	pkgs, err := packages.Load(cfg, pats...)
	if err != nil {
		return nil, fmt.Errorf("packages.Load: %w", err)
	}
	if len(pkgs) == 0 {
		return nil, fmt.Errorf("no packages matched %v", pats)
	}
	var errs []string
	all := map[string]*packages.Package{}
	packages.Visit(pkgs, nil, func(p *packages.Package) {
		all[p.PkgPath] = p
		for _, e := range p.Errors {
			errs = append(errs, p.PkgPath+": "+e.Error())
		}
	})
	if len(errs) > 0 {
		sort.Strings(errs)
		if len(errs) > 10 {
			errs = errs[:10]
		}
		return nil, fmt.Errorf("load/type errors (tree does not type-check):\n  %s", strings.Join(errs, "\n  "))
	}
	prog, _ := ssautil.AllPackages(pkgs, ssa.InstantiateGenerics)
	prog.Build()
	p := &Program{Fset: fset, Pkgs: pkgs, All: all, SSA: prog, SSAPkgs: map[string]*ssa.Package{}, GOOS: goos}
	for _, sp := range prog.AllPackages() {
		p.SSAPkgs[sp.Pkg.Path()] = sp
	}
	p.LoadTime = time.Since(start)
	return p, nil
}

// IsRepoPkg reports whether the package path belongs to the repository.
func IsRepoPkg(path string) bool { return path == Module || strings.HasPrefix(path, Module+"/") }

// RepoPackages returns the loaded repository packages (roots and their repo deps), sorted.
func (p *Program) RepoPackages() []*packages.Package {
	var out []*packages.Package
	for path, pk := range p.All {
		if IsRepoPkg(path) {
			out = append(out, pk)
		}
	}
	sort.Slice(out, func(i, j int) bool { return out[i].PkgPath < out[j].PkgPath })
	return out
}

// Package returns the go/packages package for a (short or full) path, or nil.
func (p *Program) Package(path string) *packages.Package { return p.All[PkgPath(path)] }

// SSAPkg returns the SSA package for a (short or full) path, or nil.
func (p *Program) SSAPkg(path string) *ssa.Package { return p.SSAPkgs[PkgPath(path)] }

// RepoFuncs returns every SSA function (including methods and anonymous
// functions) whose source is in a repository package. Deterministic order.
func (p *Program) RepoFuncs() []*ssa.Function {
	if p.repoFns != nil {
		return p.repoFns
	}
	seen := map[*ssa.Function]bool{}
	var out []*ssa.Function
	var add func(f *ssa.Function)
	add = func(f *ssa.Function) {
		if f == nil || seen[f] {
			return
		}
		seen[f] = true
		if f.Blocks != nil {
			out = append(out, f)
		}
		for _, a := range f.AnonFuncs {
			add(a)
		}
	}
	for fn := range ssautil.AllFunctions(p.SSA) {
		if fn.Pkg != nil && IsRepoPkg(fn.Pkg.Pkg.Path()) && fn.Synthetic == "" {
			add(fn)
		} else if fn.Pkg == nil && fn.Origin() != nil && fn.Origin().Pkg != nil && IsRepoPkg(fn.Origin().Pkg.Pkg.Path()) && fn.Synthetic == "" {
			add(fn)
		}
	}
	sort.Slice(out, func(i, j int) bool {
		pi, pj := p.Fset.Position(out[i].Pos()), p.Fset.Position(out[j].Pos())
		if pi.Filename != pj.Filename {
			return pi.Filename < pj.Filename
		}
		if pi.Offset != pj.Offset {
			return pi.Offset < pj.Offset
		}
		return out[i].String() < out[j].String()
	})
	p.repoFns = out
	return out
}

// FuncsInPkg returns the repo functions declared in one package (with anon funcs).
func (p *Program) FuncsInPkg(path string) []*ssa.Function {
	full := PkgPath(path)
	var out []*ssa.Function
	for _, f := range p.RepoFuncs() {
		if FuncPkgPath(f) == full {
			out = append(out, f)
		}
	}
	return out
}

// FuncPkgPath returns the package path of fn (following anonymous parents).
func FuncPkgPath(fn *ssa.Function) string {
	for fn != nil {
		if fn.Pkg != nil {
			return fn.Pkg.Pkg.Path()
		}
		if fn.Origin() != nil && fn.Origin() != fn {
			fn = fn.Origin()
			continue
		}
		fn = fn.Parent()
	}
	return ""
}

// TopLevel returns the outermost named function enclosing fn.
func TopLevel(fn *ssa.Function) *ssa.Function {
	for fn.Parent() != nil {
		fn = fn.Parent()
	}
	return fn
}

// Func looks a function or method up by package, receiver type name ("" for a
// plain function) and name. Returns nil when absent.
func (p *Program) Func(pkg, recv, name string) *ssa.Function {
	sp := p.SSAPkg(pkg)
	if sp == nil {
		return nil
	}
	if recv == "" {
		return sp.Func(name)
	}
	tn, ok := sp.Pkg.Scope().Lookup(recv).(*types.TypeName)
	if !ok {
		return nil
	}
	for _, t := range []types.Type{tn.Type(), types.NewPointer(tn.Type())} {
		ms := p.SSA.MethodSets.MethodSet(t)
		for i := 0; i < ms.Len(); i++ {
			sel := ms.At(i)
			if sel.Obj().Name() == name {
				// only methods declared on this type itself, not promoted
				if fn, ok := sel.Obj().(*types.Func); ok {
					if sf := p.SSA.FuncValue(fn); sf != nil {
						return sf
					}
				}
			}
		}
	}
	return nil
}

// Methods returns the methods declared on the named type (pointer and value receivers).
func (p *Program) Methods(pkg, typeName string) []*ssa.Function {
	sp := p.SSAPkg(pkg)
	if sp == nil {
		return nil
	}
	tn, ok := sp.Pkg.Scope().Lookup(typeName).(*types.TypeName)
	if !ok {
		return nil
	}
	named, ok := tn.Type().(*types.Named)
	if !ok {
		return nil
	}
	var out []*ssa.Function
	for i := 0; i < named.NumMethods(); i++ {
		if f := p.SSA.FuncValue(named.Method(i)); f != nil && f.Blocks != nil {
			out = append(out, f)
		}
	}
	sort.Slice(out, func(i, j int) bool { return out[i].Pos() < out[j].Pos() })
	return out
}

// NamedType returns the *types.Named for pkg.name, or nil.
func (p *Program) NamedType(pkg, name string) *types.Named {
	pk := p.Package(pkg)
	if pk == nil || pk.Types == nil {
		return nil
	}
	tn, ok := pk.Types.Scope().Lookup(name).(*types.TypeName)
	if !ok {
		return nil
	}
	n, _ := tn.Type().(*types.Named)
	return n
}

// Field returns the field object pkg.typeName.fieldName or nil.
func (p *Program) Field(pkg, typeName, field string) *types.Var {
	n := p.NamedType(pkg, typeName)
	if n == nil {
		return nil
	}
	st, ok := n.Underlying().(*types.Struct)
	if !ok {
		return nil
	}
	for i := 0; i < st.NumFields(); i++ {
		if st.Field(i).Name() == field {
			return st.Field(i)
		}
	}
	return nil
}

// ConstValue returns the constant pkg.name's value as a string, ok=false if absent.
func (p *Program) ConstValue(pkg, name string) (string, bool) {
	pk := p.Package(pkg)
	if pk == nil {
		return "", false
	}
	c, ok := pk.Types.Scope().Lookup(name).(*types.Const)
	if !ok {
		return "", false
	}
	return c.Val().ExactString(), true
}

// CallGraph builds (once) the VTA call graph refined from CHA.
func (p *Program) CallGraph() *callgraph.Graph {
	if p.cg == nil {
		p.cg = vta.CallGraph(ssautil.AllFunctions(p.SSA), cha.CallGraph(p.SSA))
	}
	return p.cg
}

// Pos renders a position relative to the repository root.
func (p *Program) Pos(pos token.Pos) string {
	if !pos.IsValid() {
		return "-"
	}
	ps := p.Fset.Position(pos)
	f := ps.Filename
	for _, pre := range []string{RepoDir + "/", "/repo/"} {
		f = strings.TrimPrefix(f, pre)
	}
	return fmt.Sprintf("%s:%d", f, ps.Line)
}

// FuncName renders a stable human name: pkg.(Recv).Name or pkg.Name, with $n for closures.
func FuncName(fn *ssa.Function) string {
	if fn == nil {
		return "<nil>"
	}
	s := fn.String()
	s = strings.ReplaceAll(s, Module+"/internal/", "")
	s = strings.ReplaceAll(s, Module+"/", "")
	return s
}

// FileOf returns the syntax file containing pos in a repo package.
func (p *Program) FileOf(pos token.Pos) (*ast.File, *packages.Package) {
	for _, pk := range p.RepoPackages() {
		for _, f := range pk.Syntax {
			if f.Pos() <= pos && pos <= f.End() {
				return f, pk
			}
		}
	}
	return nil, nil
}

// FuncDecl returns the AST declaration of a named SSA function.
func (p *Program) FuncDecl(fn *ssa.Function) *ast.FuncDecl {
	if fn == nil {
		return nil
	}
	if d, ok := fn.Syntax().(*ast.FuncDecl); ok {
		return d
	}
	return nil
}

// TypesInfo returns the types.Info of the package containing fn.
func (p *Program) TypesInfo(fn *ssa.Function) *types.Info {
	pk := p.All[FuncPkgPath(fn)]
	if pk == nil {
		return nil
	}
	return pk.TypesInfo
}
