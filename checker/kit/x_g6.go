package kit

import (
	"go/token"
	"go/types"

	"golang.org/x/tools/go/ssa"
)

// ---------- three-valued CFG liveness under an assignment of atomic conditions ----------

// Tri is a three-valued truth value (plus "no information yet").
type Tri int8

const (
	TriBottom  Tri = iota // no live definition reaches the value (yet)
	TriTrue               // certainly true under the assignment
	TriFalse              // certainly false under the assignment
	TriUnknown            // may be either
)

func (t Tri) not() Tri {
	switch t {
	case TriTrue:
		return TriFalse
	case TriFalse:
		return TriTrue
	}
	return t
}

func triJoin(a, b Tri) Tri {
	switch {
	case a == TriBottom:
		return b
	case b == TriBottom:
		return a
	case a == b:
		return a
	}
	return TriUnknown
}

// Live is the sub-CFG of one function that can execute when the atomic conditions chosen
// by a rule have the truth values given by atom (everything else may go either way).
// It is an over-approximation of the feasible paths: an instruction outside Blocks cannot
// execute under the assignment; one inside may.
type Live struct {
	Fn     *ssa.Function
	Blocks map[*ssa.BasicBlock]bool
	Edges  map[Edge]bool
	atom   AtomEval
}

// LiveUnder computes the live sub-CFG of fn under atom. Branch conditions are interpreted
// through constants, negation, boolean ==/!= and phis (a phi takes the join of the values
// flowing in over *live* edges, so `x := a || b; if !x` is followed precisely); every other
// condition is delegated to atom; when atom does not know it both edges stay live.
func LiveUnder(fn *ssa.Function, atom AtomEval) *Live { return LiveUnderBlocked(fn, atom, nil) }

// LiveUnderBlocked is LiveUnder on the CFG without the given edges. Removing the incoming edges of
// a phi that carry other values restricts the analysis to the executions in which a merged
// variable holds one particular definition ("the entry that was found in THIS index").
func LiveUnderBlocked(fn *ssa.Function, atom AtomEval, blocked map[Edge]bool) *Live {
	if len(fn.Blocks) == 0 {
		return &Live{Fn: fn, Blocks: map[*ssa.BasicBlock]bool{}, Edges: map[Edge]bool{}, atom: atom}
	}
	return LiveFrom(fn, fn.Blocks[0], atom, blocked)
}

// LiveFrom is LiveUnderBlocked started at block start instead of the function entry: what can
// execute from the point where a fact became true (a value was obtained) onwards.
func LiveFrom(fn *ssa.Function, start *ssa.BasicBlock, atom AtomEval, blocked map[Edge]bool) *Live {
	l := &Live{Fn: fn, Blocks: map[*ssa.BasicBlock]bool{}, Edges: map[Edge]bool{}, atom: atom}
	if len(fn.Blocks) == 0 || start == nil {
		return l
	}
	l.Blocks[start] = true
	for changed := true; changed; {
		changed = false
		for _, b := range fn.Blocks {
			if !l.Blocks[b] || len(b.Instrs) == 0 {
				continue
			}
			var take []*ssa.BasicBlock
			switch last := b.Instrs[len(b.Instrs)-1].(type) {
			case *ssa.If:
				switch l.Eval(last.Cond) {
				case TriTrue:
					take = b.Succs[:1]
				case TriFalse:
					take = b.Succs[1:2]
				default:
					take = b.Succs
				}
			case *ssa.Jump:
				take = b.Succs
			}
			for _, s := range take {
				e := Edge{b, s}
				if blocked[e] {
					continue
				}
				if !l.Edges[e] {
					l.Edges[e] = true
					changed = true
				}
				if !l.Blocks[s] {
					l.Blocks[s] = true
					changed = true
				}
			}
		}
	}
	return l
}

// Eval gives the value of a boolean SSA value on the live sub-CFG.
func (l *Live) Eval(v ssa.Value) Tri { return l.eval(v, map[ssa.Value]bool{}) }

func (l *Live) eval(v ssa.Value, busy map[ssa.Value]bool) Tri {
	if busy[v] {
		return TriBottom
	}
	switch x := v.(type) {
	case *ssa.Const:
		if b, ok := ConstBool(x); ok {
			if b {
				return TriTrue
			}
			return TriFalse
		}
	case *ssa.UnOp:
		if x.Op == token.NOT {
			return l.eval(x.X, busy).not()
		}
	case *ssa.Phi:
		if a, ok := l.atom(v); ok {
			return triOf(a)
		}
		busy[v] = true
		defer delete(busy, v)
		r := TriBottom
		for i, p := range x.Block().Preds {
			if !l.Edges[Edge{p, x.Block()}] {
				continue
			}
			r = triJoin(r, l.eval(x.Edges[i], busy))
		}
		return r
	case *ssa.BinOp:
		if (x.Op == token.EQL || x.Op == token.NEQ) && isBoolType(x.X) {
			if a, ok := l.atom(v); ok {
				return triOf(a)
			}
			a, b := l.eval(x.X, busy), l.eval(x.Y, busy)
			if (a == TriTrue || a == TriFalse) && (b == TriTrue || b == TriFalse) {
				return triOf((a == b) == (x.Op == token.EQL))
			}
			return TriUnknown
		}
	}
	if a, ok := l.atom(v); ok {
		return triOf(a)
	}
	return TriUnknown
}

func triOf(b bool) Tri {
	if b {
		return TriTrue
	}
	return TriFalse
}

// InstrLive reports whether the instruction may execute under the assignment.
func (l *Live) InstrLive(in ssa.Instruction) bool { return l.Blocks[in.Block()] }

// CanReach reports whether, on live edges only, b can execute after a without executing any
// instruction of avoid in between (a itself is not considered part of the path).
func (l *Live) CanReach(a, b ssa.Instruction, avoid map[ssa.Instruction]bool) bool {
	if !l.Blocks[a.Block()] {
		return false
	}
	seen := map[*ssa.BasicBlock]bool{}
	var walk func(blk *ssa.BasicBlock, idx int) bool
	walk = func(blk *ssa.BasicBlock, idx int) bool {
		for i := idx; i < len(blk.Instrs); i++ {
			in := blk.Instrs[i]
			if in == b {
				return true
			}
			if avoid[in] {
				return false
			}
		}
		for _, s := range blk.Succs {
			if !l.Edges[Edge{blk, s}] || seen[s] {
				continue
			}
			seen[s] = true
			if walk(s, 0) {
				return true
			}
		}
		return false
	}
	return walk(a.Block(), InstrIndex(a)+1)
}

// CanReachFromEntry reports whether b can execute on a live path from the function entry that
// executes no instruction of avoid before it.
func (l *Live) CanReachFromEntry(b ssa.Instruction, avoid map[ssa.Instruction]bool) bool {
	if len(l.Fn.Blocks) == 0 {
		return false
	}
	entry := l.Fn.Blocks[0]
	seen := map[*ssa.BasicBlock]bool{entry: true}
	var walk func(blk *ssa.BasicBlock) bool
	walk = func(blk *ssa.BasicBlock) bool {
		for _, in := range blk.Instrs {
			if in == b {
				return true
			}
			if avoid[in] {
				return false
			}
		}
		for _, s := range blk.Succs {
			if !l.Edges[Edge{blk, s}] || seen[s] {
				continue
			}
			seen[s] = true
			if walk(s) {
				return true
			}
		}
		return false
	}
	return walk(entry)
}

// LiveReturns lists the Return instructions that may execute under the assignment
// (the synthetic recover block is never live: it is entered by a panic, not by an edge).
func (l *Live) LiveReturns() []*ssa.Return {
	var out []*ssa.Return
	for _, r := range Returns(l.Fn) {
		if l.Blocks[r.Block()] {
			out = append(out, r)
		}
	}
	return out
}

// ---------- forward (acyclic) reachability ----------

// CanReachForward is CanReach restricted to paths that take no loop back edge (an edge whose
// target dominates its source): "b executes after a within the same loop iteration / the same
// straight-line handling of one input".
func CanReachForward(a, b ssa.Instruction) bool {
	if a.Block() == b.Block() {
		return InstrIndex(a) < InstrIndex(b)
	}
	seen := map[*ssa.BasicBlock]bool{a.Block(): true}
	work := []*ssa.BasicBlock{a.Block()}
	for len(work) > 0 {
		x := work[len(work)-1]
		work = work[:len(work)-1]
		for _, s := range x.Succs {
			if s.Dominates(x) { // back edge
				continue
			}
			if s == b.Block() {
				return true
			}
			if !seen[s] {
				seen[s] = true
				work = append(work, s)
			}
		}
	}
	return false
}

// ExitReachableAvoiding reports whether some block without successors (return / panic) is
// reachable from start without entering avoid. start == avoid yields false.
func ExitReachableAvoiding(start, avoid *ssa.BasicBlock) bool {
	if start == avoid {
		return false
	}
	seen := map[*ssa.BasicBlock]bool{start: true}
	work := []*ssa.BasicBlock{start}
	for len(work) > 0 {
		x := work[len(work)-1]
		work = work[:len(work)-1]
		if len(x.Succs) == 0 {
			return true
		}
		for _, s := range x.Succs {
			if s == avoid || seen[s] {
				continue
			}
			seen[s] = true
			work = append(work, s)
		}
	}
	return false
}

// BlockReachable reports whether block b is reachable from block a (a == b counts).
func BlockReachable(a, b *ssa.BasicBlock) bool {
	if a == b {
		return true
	}
	seen := map[*ssa.BasicBlock]bool{a: true}
	work := []*ssa.BasicBlock{a}
	for len(work) > 0 {
		x := work[len(work)-1]
		work = work[:len(work)-1]
		for _, s := range x.Succs {
			if s == b {
				return true
			}
			if !seen[s] {
				seen[s] = true
				work = append(work, s)
			}
		}
	}
	return false
}

// ControlDependentOn reports whether instruction s is control dependent on the If ending
// block d: s is reachable from d, and from at least one successor edge of d the function can
// finish without executing s's block. (The branch decides whether s runs.)
func ControlDependentOn(s ssa.Instruction, d *ssa.BasicBlock) bool {
	if len(d.Succs) != 2 || d.Succs[0] == d.Succs[1] {
		return false
	}
	sb := s.Block()
	if sb == d {
		return false
	}
	r0, r1 := BlockReachable(d.Succs[0], sb), BlockReachable(d.Succs[1], sb)
	if !r0 && !r1 {
		return false
	}
	return ExitReachableAvoiding(d.Succs[0], sb) || ExitReachableAvoiding(d.Succs[1], sb)
}

// ---------- value flow (what an expression is computed from) ----------

// FlowSet returns every SSA value that v is computed from inside its function: through
// arithmetic, conversions, phis, tuple extraction, call arguments and receivers (calls are
// treated as functions of their operands), slicing/indexing, loads of local memory (through
// every store into the allocation, its elements and fields, including variadic argument
// arrays and captured variables), and field selections (the base is followed). The walk does
// not descend below a value for which stop returns true (the value itself is included).
// Parameters, constants, globals and free variables are leaves.
func FlowSet(v ssa.Value, stop func(ssa.Value) bool) map[ssa.Value]bool {
	seen := map[ssa.Value]bool{}
	var rec func(x ssa.Value)
	writers := func(root ssa.Value) {
		done := map[ssa.Value]bool{}
		var walk func(a ssa.Value)
		walk = func(a ssa.Value) {
			if done[a] || a.Referrers() == nil {
				return
			}
			done[a] = true
			for _, r := range *a.Referrers() {
				switch rr := r.(type) {
				case *ssa.Store:
					if rr.Addr == a {
						rec(rr.Val)
					}
				case *ssa.FieldAddr:
					if rr.X == a {
						walk(rr)
					}
				case *ssa.IndexAddr:
					if rr.X == a {
						walk(rr)
					}
				case *ssa.Slice:
					if rr.X == a {
						walk(rr)
					}
				case *ssa.MapUpdate:
					if rr.Map == a {
						rec(rr.Key)
						rec(rr.Value)
					}
				case ssa.CallInstruction:
					if CalleeOf(rr).Built == "copy" && len(rr.Common().Args) == 2 && rr.Common().Args[0] == a {
						rec(rr.Common().Args[1])
					}
				}
			}
		}
		walk(root)
	}
	rec = func(x ssa.Value) {
		if x == nil || seen[x] {
			return
		}
		seen[x] = true
		if stop != nil && stop(x) {
			return
		}
		switch t := x.(type) {
		case *ssa.BinOp:
			rec(t.X)
			rec(t.Y)
		case *ssa.UnOp:
			rec(t.X)
		case *ssa.Convert:
			rec(t.X)
		case *ssa.ChangeType:
			rec(t.X)
		case *ssa.ChangeInterface:
			rec(t.X)
		case *ssa.MakeInterface:
			rec(t.X)
		case *ssa.TypeAssert:
			rec(t.X)
		case *ssa.SliceToArrayPointer:
			rec(t.X)
		case *ssa.Phi:
			for _, e := range t.Edges {
				rec(e)
			}
		case *ssa.Extract:
			rec(t.Tuple)
		case *ssa.Call:
			for _, a := range t.Call.Args {
				rec(a)
			}
			if t.Call.IsInvoke() {
				rec(t.Call.Value)
			} else if _, isFn := t.Call.Value.(*ssa.Function); !isFn {
				rec(t.Call.Value)
			}
		case *ssa.Slice:
			rec(t.X)
			rec(t.Low)
			rec(t.High)
		case *ssa.Index:
			rec(t.X)
			rec(t.Index)
		case *ssa.IndexAddr:
			rec(t.X)
			rec(t.Index)
		case *ssa.Lookup:
			rec(t.X)
			rec(t.Index)
		case *ssa.Field:
			rec(t.X)
		case *ssa.FieldAddr:
			rec(t.X)
		case *ssa.Next:
			rec(t.Iter)
		case *ssa.Range:
			rec(t.X)
		case *ssa.Alloc:
			writers(t)
		case *ssa.MakeSlice, *ssa.MakeMap:
			writers(x)
		case *ssa.MakeClosure:
			for _, b := range t.Bindings {
				rec(b)
			}
		case *ssa.FreeVar:
			// captured variable: follow the binding in the parent when it is local memory
			fn := t.Parent()
			if parent := fn.Parent(); parent != nil {
				idx := -1
				for i, q := range fn.FreeVars {
					if q == t {
						idx = i
					}
				}
				Instrs(parent, func(in ssa.Instruction) {
					if mc, ok := in.(*ssa.MakeClosure); ok && mc.Fn == fn && idx >= 0 && idx < len(mc.Bindings) {
						rec(mc.Bindings[idx])
					}
				})
			}
		}
	}
	rec(v)
	return seen
}

// IsStringType reports whether t's underlying type is string.
func IsStringType(t types.Type) bool {
	b, ok := t.Underlying().(*types.Basic)
	return ok && b.Info()&types.IsString != 0
}

// StaticCallClosure returns the functions statically callable from fn (calls, go, defer, and
// closures created in it), restricted to functions for which keep returns true. fn is included.
func StaticCallClosure(fn *ssa.Function, keep func(*ssa.Function) bool) map[*ssa.Function]bool {
	out := map[*ssa.Function]bool{}
	var rec func(f *ssa.Function)
	rec = func(f *ssa.Function) {
		if f == nil || out[f] {
			return
		}
		out[f] = true
		for _, a := range f.AnonFuncs {
			rec(a)
		}
		for _, c := range Calls(f) {
			if s := CalleeOf(c).Static; s != nil && s.Blocks != nil && (keep == nil || keep(s)) {
				rec(s)
			}
		}
	}
	rec(fn)
	return out
}

// Origins returns the values a variable-like SSA value can hold, looking through phis, type
// changes, loads of local variables (every store into the allocation) and captured variables
// (the binding in the enclosing function). It does not look into calls, arithmetic or struct
// fields: those are returned as they are. Parameters are leaves.
func Origins(v ssa.Value) []ssa.Value {
	seen := map[ssa.Value]bool{}
	var out []ssa.Value
	var rec func(x ssa.Value)
	fromAlloc := func(a *ssa.Alloc) {
		if a.Referrers() == nil {
			return
		}
		for _, r := range *a.Referrers() {
			if st, ok := r.(*ssa.Store); ok && st.Addr == ssa.Value(a) {
				rec(st.Val)
			}
		}
	}
	rec = func(x ssa.Value) {
		if x == nil || seen[x] {
			return
		}
		seen[x] = true
		switch t := x.(type) {
		case *ssa.Phi:
			for _, e := range t.Edges {
				rec(e)
			}
			return
		case *ssa.ChangeType:
			rec(t.X)
			return
		case *ssa.UnOp:
			if t.Op == token.MUL {
				switch a := t.X.(type) {
				case *ssa.Alloc:
					fromAlloc(a)
					return
				case *ssa.FreeVar:
					fn := a.Parent()
					parent := fn.Parent()
					idx := -1
					for i, q := range fn.FreeVars {
						if q == a {
							idx = i
						}
					}
					found := false
					if parent != nil && idx >= 0 {
						Instrs(parent, func(in ssa.Instruction) {
							if mc, ok := in.(*ssa.MakeClosure); ok && mc.Fn == fn && idx < len(mc.Bindings) {
								if al, ok := mc.Bindings[idx].(*ssa.Alloc); ok {
									found = true
									fromAlloc(al)
								}
							}
						})
					}
					if found {
						return
					}
				}
			}
		}
		out = append(out, x)
	}
	rec(v)
	return out
}

// HeldWithCallers reports whether mutex is certainly held at instruction in: either inside in's
// own function, or — for a helper that relies on its caller's lock ("...Locked" helpers) — at every
// static call site of that function (one level; closures are judged at their creation site's
// function only when called there). With write set, a read lock (RLock) does not count.
func (p *Program) HeldWithCallers(in ssa.Instruction, mutex types.Object, write bool) bool {
	ok := func(li *LockInfo, at ssa.Instruction) bool {
		acq, held := li.HeldAt(at, mutex)
		if !held {
			return false
		}
		if !write {
			return true
		}
		if acq == nil {
			return false
		}
		c, isCall := acq.(ssa.CallInstruction)
		return isCall && CalleeOf(c).Name == "Lock"
	}
	fn := in.Parent()
	if ok(Locks(fn), in) {
		return true
	}
	// the function itself must not touch the mutex, and every caller must hold it
	for _, op := range Locks(fn).Ops {
		if op.Mutex == mutex {
			return false
		}
	}
	callers := p.StaticCallers(fn)
	if len(callers) == 0 {
		return false
	}
	for _, cs := range callers {
		if _, isGo := cs.(*ssa.Go); isGo {
			return false
		}
		if !ok(Locks(cs.Parent()), cs) {
			return false
		}
	}
	return true
}
