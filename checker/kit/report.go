package kit

import (
	"encoding/json"
	"fmt"
	"os"
	"path/filepath"
	"sort"
	"strings"
	"time"
)

// Status of an obligation.
type Status string

const (
	Discharged Status = "discharged"
	Violated   Status = "violated"
	Undecided  Status = "undecided"
	Info       Status = "info" // reported, not part of the verdict
)

// Obligation is one decided (or undecided) instance of a rule on a construct.
type Obligation struct {
	Rule   string `json:"rule"`   // e.g. "C01.R1"
	Key    string `json:"key"`    // construct key: package/function/field/ordinal - never a line number
	Pos    string `json:"pos"`    // file:line for diagnosis only
	Status Status `json:"status"` //
	Detail string `json:"detail,omitempty"`
	Known  bool   `json:"known_finding,omitempty"`
}

// Report collects what one check run analysed and decided.
type Report struct {
	Property string
	Tier     string
	Rules    map[string]string // rule id -> description
	Obs      []Obligation
	Counters map[string]int // measured: functions analysed, call sites, ...
	Floors   []string       // floor failures / unresolved anchors => exit 2
	Notes    []string
	Assume   []string
	Explain  string
	start    time.Time
}

func NewReport(prop, tier string) *Report {
	return &Report{Property: prop, Tier: tier, Rules: map[string]string{}, Counters: map[string]int{}, start: time.Now()}
}

func (r *Report) Rule(id, desc string) { r.Rules[id] = desc }

func (r *Report) add(rule, key, pos string, st Status, format string, a ...any) {
	r.Obs = append(r.Obs, Obligation{Rule: rule, Key: key, Pos: pos, Status: st, Detail: fmt.Sprintf(format, a...)})
}

func (r *Report) OK(rule, key, pos, format string, a ...any) {
	r.add(rule, key, pos, Discharged, format, a...)
}
func (r *Report) Violation(rule, key, pos, format string, a ...any) {
	r.add(rule, key, pos, Violated, format, a...)
}
func (r *Report) Undecided(rule, key, pos, format string, a ...any) {
	r.add(rule, key, pos, Undecided, format, a...)
}
func (r *Report) Infof(rule, key, pos, format string, a ...any) {
	r.add(rule, key, pos, Info, format, a...)
}

// Decide records Discharged when ok, otherwise Violated.
func (r *Report) Decide(ok bool, rule, key, pos, okMsg, badMsg string) {
	if ok {
		r.OK(rule, key, pos, "%s", okMsg)
	} else {
		r.Violation(rule, key, pos, "%s", badMsg)
	}
}

func (r *Report) Count(name string, n int) { r.Counters[name] += n }

// Floor records a checker-level failure: the rule cannot see its subject.
func (r *Report) Floor(format string, a ...any) {
	r.Floors = append(r.Floors, fmt.Sprintf(format, a...))
}

// Require is a floor assertion.
func (r *Report) Require(cond bool, format string, a ...any) bool {
	if !cond {
		r.Floor(format, a...)
	}
	return cond
}

func (r *Report) Note(format string, a ...any) { r.Notes = append(r.Notes, fmt.Sprintf(format, a...)) }
func (r *Report) Assumption(s string)          { r.Assume = append(r.Assume, s) }

// ---------- known findings ----------

type KnownFinding struct {
	Property string `json:"property"`
	Rule     string `json:"rule"`
	Key      string `json:"key"`
	What     string `json:"what"`
}

type FixedFinding struct {
	Property string `json:"property"`
	Commit   string `json:"commit"`
	What     string `json:"what"`
	Line     string `json:"line"`
}

type KnownFile struct {
	Comment string         `json:"comment"`
	Open    []KnownFinding `json:"open"`
	Fixed   []FixedFinding `json:"fixed"`
}

func LoadKnown(path string) (*KnownFile, error) {
	b, err := os.ReadFile(path)
	if err != nil {
		if os.IsNotExist(err) {
			return &KnownFile{}, nil
		}
		return nil, err
	}
	var k KnownFile
	if err := json.Unmarshal(b, &k); err != nil {
		return nil, fmt.Errorf("%s: %w", path, err)
	}
	return &k, nil
}

// ---------- finishing: verdict, evidence, replay ----------

type Outcome struct {
	ExitCode   int
	Violations []Obligation
	Known      []Obligation
}

// Finish applies known findings, prints the verdict lines, writes evidence and replay
// files, and returns the exit code (0 held, 1 violation, 2 checker cannot decide).
func (r *Report) Finish(verifDir string, level string, known *KnownFile) Outcome {
	var out Outcome
	knownIdx := map[string]KnownFinding{}
	for _, k := range known.Open {
		if k.Property == r.Property {
			knownIdx[k.Rule+"|"+k.Key] = k
		}
	}
	sort.SliceStable(r.Obs, func(i, j int) bool {
		if r.Obs[i].Rule != r.Obs[j].Rule {
			return r.Obs[i].Rule < r.Obs[j].Rule
		}
		return r.Obs[i].Key < r.Obs[j].Key
	})
	// duplicate keys are a checker bug: obligations must be uniquely keyed
	seenKey := map[string]int{}
	for i := range r.Obs {
		k := r.Obs[i].Rule + "|" + r.Obs[i].Key
		seenKey[k]++
		if seenKey[k] > 1 {
			r.Obs[i].Key = fmt.Sprintf("%s#%d", r.Obs[i].Key, seenKey[k])
		}
	}
	nDis, nVio, nUnd, nInfo := 0, 0, 0, 0
	usedKnown := map[string]bool{}
	for i := range r.Obs {
		o := &r.Obs[i]
		switch o.Status {
		case Discharged:
			nDis++
		case Info:
			nInfo++
		case Undecided:
			nUnd++
		case Violated:
			if kf, ok := knownIdx[o.Rule+"|"+o.Key]; ok {
				o.Known = true
				usedKnown[o.Rule+"|"+o.Key] = true
				out.Known = append(out.Known, *o)
				fmt.Printf("KNOWN-FINDING: property=%s %s %s — %s (%s)\n", r.Property, o.Rule, o.Key, kf.What, o.Pos)
			} else {
				nVio++
				out.Violations = append(out.Violations, *o)
			}
		}
	}
	replayDir := filepath.Join(verifDir, "evidence", "replay")
	os.MkdirAll(replayDir, 0o755)
	// remove stale replay files of this property
	if old, _ := filepath.Glob(filepath.Join(replayDir, r.Property+"-*.json")); old != nil {
		for _, f := range old {
			os.Remove(f)
		}
	}
	for i, v := range out.Violations {
		path := filepath.Join(replayDir, fmt.Sprintf("%s-%d.json", r.Property, i+1))
		b, _ := json.MarshalIndent(map[string]any{
			"property": r.Property, "rule": v.Rule, "key": v.Key, "pos": v.Pos, "detail": v.Detail,
			"rule_text": r.Rules[v.Rule],
		}, "", "  ")
		os.WriteFile(path, b, 0o644)
		fmt.Printf("violation: %s %s at %s: %s\n", v.Rule, v.Key, v.Pos, v.Detail)
		fmt.Printf("VIOLATION property=%s replay=%s\n", r.Property, path)
	}
	for _, o := range r.Obs {
		if o.Status == Undecided {
			fmt.Printf("UNDECIDED property=%s %s %s at %s: %s\n", r.Property, o.Rule, o.Key, o.Pos, o.Detail)
		}
	}
	for _, f := range r.Floors {
		fmt.Printf("CHECKER-ERROR property=%s %s\n", r.Property, f)
	}
	// known findings that no longer reproduce are reported (informational)
	for k, kf := range knownIdx {
		if !usedKnown[k] {
			fmt.Printf("note: known finding no longer reproduces: property=%s %s %s (%s)\n", r.Property, kf.Rule, kf.Key, kf.What)
		}
	}
	switch {
	case nVio > 0:
		out.ExitCode = 1
	case nUnd > 0 || len(r.Floors) > 0:
		out.ExitCode = 2
	}

	// evidence
	distinct := map[string]bool{}
	for _, o := range r.Obs {
		if o.Status != Info {
			distinct[o.Rule+"|"+o.Key] = true
		}
	}
	var samples []any
	perRule := map[string]int{}
	for _, o := range r.Obs {
		if o.Status == Info {
			continue
		}
		if perRule[o.Rule] < 6 || o.Status != Discharged {
			perRule[o.Rule]++
			samples = append(samples, o)
		}
	}
	if len(samples) > 120 {
		samples = samples[:120]
	}
	var ruleList []string
	for id, d := range r.Rules {
		ruleList = append(ruleList, id+": "+d)
	}
	sort.Strings(ruleList)
	obl := nDis + nVio + nUnd + len(out.Known)
	cov := map[string]any{
		"explanation":         r.Explain + " Rules applied: " + strings.Join(ruleList, " | "),
		"obligations":         obl,
		"discharged":          nDis,
		"violated_new":        nVio,
		"violated_known":      len(out.Known),
		"undecided":           nUnd,
		"informational":       nInfo,
		"evaluations":         obl,
		"distinct_nontrivial": len(distinct),
		"rule":                "one obligation per (rule, construct) found in /repo's current source; distinct = distinct (rule, construct-key) pairs; informational listings are not counted",
		"samples":             samples,
		"measured":            r.Counters,
		"rules":               ruleList,
		"notes":               r.Notes,
		"checker_errors":      r.Floors,
		"exhaustive":          true,
		"checker_cmd":         fmt.Sprintf("bin/mmverify check --property %s --tier %s", r.Property, r.Tier),
		"trusted_base": []string{"Go type checker (go/types)", "go/ssa lowering (x/tools v0.29.0)",
			"documented semantics of the std / x/crypto calls named by the rules"},
	}
	ev := map[string]any{
		"property_id": r.Property,
		"tier":        r.Tier,
		"seed":        seedFromEnv(),
		"level":       level,
		"coverage":    cov,
		"assumptions": append([]string{"static analysis of the source as on disk; no code from /repo is executed"}, r.Assume...),
		"wall_s":      time.Since(r.start).Seconds(),
		"violations":  nVio,
	}
	os.MkdirAll(filepath.Join(verifDir, "evidence"), 0o755)
	b, _ := json.MarshalIndent(ev, "", " ")
	if err := os.WriteFile(filepath.Join(verifDir, "evidence", r.Property+".json"), b, 0o644); err != nil {
		fmt.Printf("CHECKER-ERROR cannot write evidence: %v\n", err)
		if out.ExitCode == 0 {
			out.ExitCode = 2
		}
	}
	fmt.Printf("%s tier=%s obligations=%d discharged=%d violations=%d known=%d undecided=%d info=%d wall=%.1fs exit=%d\n",
		r.Property, r.Tier, obl, nDis, nVio, len(out.Known), nUnd, nInfo, time.Since(r.start).Seconds(), out.ExitCode)
	return out
}

func seedFromEnv() int {
	s := os.Getenv("VERIF_SEED")
	n := 0
	fmt.Sscanf(s, "%d", &n)
	return n
}
