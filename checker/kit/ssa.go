package kit

import (
	"go/constant"
	"go/token"
	"go/types"
	"strings"

	"golang.org/x/tools/go/ssa"
)

// ---------- instructions and calls ----------

// Instrs calls f for every instruction of fn (not of nested closures).
func Instrs(fn *ssa.Function, f func(ssa.Instruction)) {
	for _, b := range fn.Blocks {
		for _, in := range b.Instrs {
			f(in)
		}
	}
}

// WithClosures returns fn followed by all anonymous functions nested in it (recursively).
func WithClosures(fn *ssa.Function) []*ssa.Function {
	out := []*ssa.Function{fn}
	for _, a := range fn.AnonFuncs {
		out = append(out, WithClosures(a)...)
	}
	return out
}

// Callee describes the target of a call instruction.
type Callee struct {
	Pkg    string // package path of the callee ("" for builtins)
	Recv   string // receiver named type (without pointer), "" for functions
	Name   string
	Static *ssa.Function // non-nil for static calls to functions with SSA
	Iface  bool          // dynamic call through interface method
	Obj    *types.Func   // the called function object (nil for builtins/closures values)
	Built  string        // builtin name (len, append, delete, copy, ...)
}

func (c Callee) String() string {
	if c.Built != "" {
		return "builtin." + c.Built
	}
	p := strings.TrimPrefix(c.Pkg, Module+"/")
	if c.Recv != "" {
		return p + "." + c.Recv + "." + c.Name
	}
	return p + "." + c.Name
}

// Is reports whether the callee is pkg.recv.name. pkg may be short ("internal/crypto").
// An empty recv matches plain functions only; recv "*" matches any receiver.
func (c Callee) Is(pkg, recv, name string) bool {
	if c.Name != name {
		return false
	}
	if PkgPath(pkg) != c.Pkg {
		return false
	}
	if recv == "*" {
		return true
	}
	return recv == c.Recv
}

func recvName(t types.Type) string {
	if p, ok := t.(*types.Pointer); ok {
		t = p.Elem()
	}
	switch tt := t.(type) {
	case *types.Named:
		return tt.Obj().Name()
	case *types.Alias:
		return tt.Obj().Name()
	}
	return t.String()
}

// CalleeOf resolves the callee of a call/go/defer instruction.
func CalleeOf(call ssa.CallInstruction) Callee {
	cc := call.Common()
	if cc.IsInvoke() {
		m := cc.Method
		c := Callee{Name: m.Name(), Iface: true, Obj: m}
		if m.Pkg() != nil {
			c.Pkg = m.Pkg().Path()
		}
		if sig, ok := m.Type().(*types.Signature); ok && sig.Recv() != nil {
			c.Recv = recvName(sig.Recv().Type())
		}
		// the receiver of an interface method object is the interface type; prefer the
		// static type of the value if it is a named interface
		if n, ok := cc.Value.Type().(*types.Named); ok {
			c.Recv = n.Obj().Name()
			if n.Obj().Pkg() != nil {
				c.Pkg = n.Obj().Pkg().Path()
			}
		}
		return c
	}
	switch v := cc.Value.(type) {
	case *ssa.Builtin:
		return Callee{Built: v.Name(), Name: v.Name()}
	case *ssa.Function:
		return calleeOfFunc(v)
	case *ssa.MakeClosure:
		if f, ok := v.Fn.(*ssa.Function); ok {
			return calleeOfFunc(f)
		}
	}
	return Callee{Name: "<dynamic>"}
}

func calleeOfFunc(f *ssa.Function) Callee {
	c := Callee{Name: f.Name(), Static: f}
	if o, ok := f.Object().(*types.Func); ok {
		c.Obj = o
	}
	if org := f.Origin(); org != nil && org != f {
		c.Name = org.Name()
		if o, ok := org.Object().(*types.Func); ok {
			c.Obj = o
		}
	}
	c.Pkg = FuncPkgPath(f)
	if f.Signature != nil && f.Signature.Recv() != nil {
		c.Recv = recvName(f.Signature.Recv().Type())
	}
	return c
}

// Calls returns the call/go/defer instructions of fn in block order.
func Calls(fn *ssa.Function) []ssa.CallInstruction {
	var out []ssa.CallInstruction
	Instrs(fn, func(in ssa.Instruction) {
		if c, ok := in.(ssa.CallInstruction); ok {
			out = append(out, c)
		}
	})
	return out
}

// CallsTo returns the calls in fn whose callee matches pkg.recv.name.
func CallsTo(fn *ssa.Function, pkg, recv, name string) []ssa.CallInstruction {
	var out []ssa.CallInstruction
	for _, c := range Calls(fn) {
		if CalleeOf(c).Is(pkg, recv, name) {
			out = append(out, c)
		}
	}
	return out
}

// CallsToDeep is CallsTo over fn and all of its closures.
func CallsToDeep(fn *ssa.Function, pkg, recv, name string) []ssa.CallInstruction {
	var out []ssa.CallInstruction
	for _, f := range WithClosures(fn) {
		out = append(out, CallsTo(f, pkg, recv, name)...)
	}
	return out
}

// CallValue returns the value of a call instruction (nil for go/defer).
func CallValue(c ssa.CallInstruction) ssa.Value {
	if v, ok := c.(*ssa.Call); ok {
		return v
	}
	return nil
}

// Arg returns the i-th explicit argument (excluding receiver) of a call.
func Arg(c ssa.CallInstruction, i int) ssa.Value {
	cc := c.Common()
	args := cc.Args
	if !cc.IsInvoke() {
		if sig := cc.Signature(); sig != nil && sig.Recv() != nil {
			if len(args) > 0 {
				args = args[1:]
			}
		}
	}
	if i < 0 || i >= len(args) {
		return nil
	}
	return args[i]
}

// Receiver returns the receiver value of a method call (static or invoke), or nil.
func Receiver(c ssa.CallInstruction) ssa.Value {
	cc := c.Common()
	if cc.IsInvoke() {
		return cc.Value
	}
	if sig := cc.Signature(); sig != nil && sig.Recv() != nil && len(cc.Args) > 0 {
		return cc.Args[0]
	}
	return nil
}

// ---------- values ----------

// ConstInt returns the integer constant value of v.
func ConstInt(v ssa.Value) (int64, bool) {
	c, ok := v.(*ssa.Const)
	if !ok || c.Value == nil {
		// conversions of constants
		if cv, ok2 := v.(*ssa.Convert); ok2 {
			return ConstInt(cv.X)
		}
		return 0, false
	}
	if c.Value.Kind() != constant.Int {
		return 0, false
	}
	i, exact := constant.Int64Val(c.Value)
	if !exact {
		u, ex2 := constant.Uint64Val(c.Value)
		if ex2 {
			return int64(u), true
		}
		return 0, false
	}
	return i, true
}

// ConstBool returns the boolean constant value of v.
func ConstBool(v ssa.Value) (bool, bool) {
	c, ok := v.(*ssa.Const)
	if !ok || c.Value == nil || c.Value.Kind() != constant.Bool {
		return false, false
	}
	return constant.BoolVal(c.Value), true
}

// ConstString returns the string constant value of v.
func ConstString(v ssa.Value) (string, bool) {
	c, ok := v.(*ssa.Const)
	if !ok || c.Value == nil || c.Value.Kind() != constant.String {
		return "", false
	}
	return constant.StringVal(c.Value), true
}

// IsNilConst reports whether v is the nil constant.
func IsNilConst(v ssa.Value) bool {
	c, ok := v.(*ssa.Const)
	return ok && c.Value == nil
}

// Unwrap strips ChangeType/Convert/MakeInterface/ChangeInterface wrappers.
func Unwrap(v ssa.Value) ssa.Value {
	for {
		switch x := v.(type) {
		case *ssa.ChangeType:
			v = x.X
		case *ssa.MakeInterface:
			v = x.X
		case *ssa.ChangeInterface:
			v = x.X
		case *ssa.Convert:
			v = x.X
		default:
			return v
		}
	}
}

// FieldOfAddr returns the struct field a FieldAddr/Field value selects, or nil.
func FieldOfAddr(v ssa.Value) *types.Var {
	switch x := v.(type) {
	case *ssa.FieldAddr:
		t := x.X.Type().Underlying()
		if p, ok := t.(*types.Pointer); ok {
			t = p.Elem().Underlying()
		}
		if st, ok := t.(*types.Struct); ok {
			return st.Field(x.Field)
		}
	case *ssa.Field:
		if st, ok := x.X.Type().Underlying().(*types.Struct); ok {
			return st.Field(x.Field)
		}
	}
	return nil
}

// LoadedField: if v is a load (*addr) of a struct field, or a Field extraction, returns that field.
func LoadedField(v ssa.Value) (*types.Var, ssa.Value) {
	switch x := v.(type) {
	case *ssa.UnOp:
		if x.Op == token.MUL {
			if fa, ok := x.X.(*ssa.FieldAddr); ok {
				return FieldOfAddr(fa), fa.X
			}
		}
	case *ssa.Field:
		return FieldOfAddr(x), x.X
	}
	return nil, nil
}

// ---------- dominance, guards, reachability ----------

// Guard is a branch condition known to hold (Polarity=true) or not hold at a program point.
type Guard struct {
	Cond     ssa.Value
	Polarity bool
	If       *ssa.If
}

// edgeSole reports whether blk can only be entered from pred (ignoring back edges
// from blocks that blk itself dominates).
func edgeSole(pred, blk *ssa.BasicBlock) bool {
	for _, p := range blk.Preds {
		if p == pred {
			continue
		}
		if blk.Dominates(p) {
			continue // back edge
		}
		return false
	}
	return true
}

// Guards returns the branch conditions that necessarily hold when control
// reaches block b: for each dominator D ending in an If, if exactly one of
// its successors S both dominates b and is entered only from D, the
// condition (or its negation) is established.
func Guards(b *ssa.BasicBlock) []Guard {
	var out []Guard
	for d := b.Idom(); d != nil; d = d.Idom() {
		if len(d.Instrs) == 0 {
			continue
		}
		ifi, ok := d.Instrs[len(d.Instrs)-1].(*ssa.If)
		if !ok {
			continue
		}
		t, f := d.Succs[0], d.Succs[1]
		tOK := t != f && (t == b || t.Dominates(b)) && edgeSole(d, t)
		fOK := t != f && (f == b || f.Dominates(b)) && edgeSole(d, f)
		if tOK && !fOK {
			out = append(out, Guard{ifi.Cond, true, ifi})
		} else if fOK && !tOK {
			out = append(out, Guard{ifi.Cond, false, ifi})
		}
	}
	return out
}

// GuardsOf returns the guards at an instruction.
func GuardsOf(in ssa.Instruction) []Guard { return Guards(in.Block()) }

// Edge is a CFG edge.
type Edge struct{ From, To *ssa.BasicBlock }

// Reach computes the set of blocks reachable from start without traversing
// blocked edges and without passing *through* blocked blocks (a blocked block
// is still reported reachable if entered, but its successors are not followed
// from it). start itself is included.
func Reach(start *ssa.BasicBlock, blockedEdges map[Edge]bool, stopBlocks map[*ssa.BasicBlock]bool) map[*ssa.BasicBlock]bool {
	seen := map[*ssa.BasicBlock]bool{start: true}
	work := []*ssa.BasicBlock{start}
	for len(work) > 0 {
		b := work[len(work)-1]
		work = work[:len(work)-1]
		if stopBlocks[b] && b != start {
			continue
		}
		for _, s := range b.Succs {
			if blockedEdges[Edge{b, s}] {
				continue
			}
			if !seen[s] {
				seen[s] = true
				work = append(work, s)
			}
		}
	}
	return seen
}

// InstrIndex returns the index of in within its block.
func InstrIndex(in ssa.Instruction) int {
	for i, x := range in.Block().Instrs {
		if x == in {
			return i
		}
	}
	return -1
}

// Precedes reports whether instruction a is executed before b on every path
// that reaches b (a dominates b at instruction granularity).
func Precedes(a, b ssa.Instruction) bool {
	if a.Block() == b.Block() {
		return InstrIndex(a) < InstrIndex(b)
	}
	return a.Block().Dominates(b.Block())
}

// CanReach reports whether there is a CFG path from instruction a to
// instruction b (a executes, later b executes), within one function.
func CanReach(a, b ssa.Instruction) bool {
	if a.Block() == b.Block() && InstrIndex(a) < InstrIndex(b) {
		return true
	}
	// leave a's block
	seen := map[*ssa.BasicBlock]bool{}
	work := append([]*ssa.BasicBlock{}, a.Block().Succs...)
	for len(work) > 0 {
		x := work[len(work)-1]
		work = work[:len(work)-1]
		if seen[x] {
			continue
		}
		seen[x] = true
		if x == b.Block() {
			return true
		}
		work = append(work, x.Succs...)
	}
	return false
}

// CanReachAvoiding reports whether b can execute after a on some path that
// does not execute any instruction in avoid between them.
func CanReachAvoiding(a, b ssa.Instruction, avoid map[ssa.Instruction]bool) bool {
	// walk instruction by instruction
	type pt struct {
		blk *ssa.BasicBlock
		idx int
	}
	start := pt{a.Block(), InstrIndex(a) + 1}
	seen := map[*ssa.BasicBlock]bool{}
	var walk func(p pt) bool
	walk = func(p pt) bool {
		for i := p.idx; i < len(p.blk.Instrs); i++ {
			in := p.blk.Instrs[i]
			if in == b {
				return true
			}
			if avoid[in] {
				return false
			}
		}
		for _, s := range p.blk.Succs {
			if seen[s] {
				continue
			}
			seen[s] = true
			if walk(pt{s, 0}) {
				return true
			}
		}
		return false
	}
	return walk(start)
}

// Returns lists the Return instructions of fn.
func Returns(fn *ssa.Function) []*ssa.Return {
	var out []*ssa.Return
	Instrs(fn, func(in ssa.Instruction) {
		if r, ok := in.(*ssa.Return); ok {
			out = append(out, r)
		}
	})
	return out
}

// PhiLeaves expands a value through Phi nodes into its non-phi leaves.
func PhiLeaves(v ssa.Value) []ssa.Value {
	seen := map[ssa.Value]bool{}
	var out []ssa.Value
	var rec func(ssa.Value)
	rec = func(x ssa.Value) {
		if seen[x] {
			return
		}
		seen[x] = true
		if p, ok := x.(*ssa.Phi); ok {
			for _, e := range p.Edges {
				rec(e)
			}
			return
		}
		out = append(out, x)
	}
	rec(v)
	return out
}

// IsErrNilCheck: cond is `x == nil` / `x != nil` where x has type error. Returns x and whether
// cond==true means "x is nil".
func IsErrNilCheck(cond ssa.Value) (x ssa.Value, trueMeansNil bool, ok bool) {
	b, isb := cond.(*ssa.BinOp)
	if !isb || (b.Op != token.EQL && b.Op != token.NEQ) {
		return nil, false, false
	}
	var other ssa.Value
	if IsNilConst(b.Y) {
		other = b.X
	} else if IsNilConst(b.X) {
		other = b.Y
	} else {
		return nil, false, false
	}
	return other, b.Op == token.EQL, true
}

// ErrNilOn reports whether the guards establish that errVal == nil.
func ErrNilOn(gs []Guard, errVal ssa.Value) bool {
	for _, g := range gs {
		x, tn, ok := IsErrNilCheck(g.Cond)
		if !ok {
			continue
		}
		if sameValue(x, errVal) && tn == g.Polarity {
			return true
		}
	}
	return false
}

// sameValue compares SSA values, looking through single-edge phis.
func sameValue(a, b ssa.Value) bool {
	if a == b {
		return true
	}
	return false
}

// ResultOf: if v is Extract(call, i) or the call itself, returns the call and index (0 for single).
func ResultOf(v ssa.Value) (*ssa.Call, int, bool) {
	switch x := v.(type) {
	case *ssa.Extract:
		if c, ok := x.Tuple.(*ssa.Call); ok {
			return c, x.Index, true
		}
	case *ssa.Call:
		return x, 0, true
	}
	return nil, 0, false
}

// ExtractOf returns the Extract instruction for result idx of a tuple call, or nil.
func ExtractOf(c *ssa.Call, idx int) ssa.Value {
	if c.Referrers() == nil {
		return nil
	}
	for _, r := range *c.Referrers() {
		if e, ok := r.(*ssa.Extract); ok && e.Index == idx {
			return e
		}
	}
	return nil
}

// ErrResultOf returns the value holding the error result of call c (last result), or nil.
func ErrResultOf(c *ssa.Call) ssa.Value {
	sig := c.Common().Signature()
	if sig == nil || sig.Results().Len() == 0 {
		return nil
	}
	n := sig.Results().Len()
	last := sig.Results().At(n - 1).Type()
	if !isErrorType(last) {
		return nil
	}
	if n == 1 {
		return c
	}
	return ExtractOf(c, n-1)
}

func isErrorType(t types.Type) bool {
	n, ok := t.(*types.Named)
	return ok && n.Obj().Pkg() == nil && n.Obj().Name() == "error"
}

// IsErrorType reports whether t is the predeclared error type.
func IsErrorType(t types.Type) bool { return isErrorType(t) }

// ReturnResult returns the i-th result of a return instruction, looking through the
// "defer spill" lowering of go/ssa (results stored to a stack slot, rundefers, reloaded):
// in that case the value stored to the slot in the same block is returned.
func ReturnResult(ret *ssa.Return, i int) ssa.Value {
	if i < 0 || i >= len(ret.Results) {
		return nil
	}
	v := ret.Results[i]
	u, ok := v.(*ssa.UnOp)
	if !ok || u.Op != token.MUL {
		return v
	}
	a, ok := u.X.(*ssa.Alloc)
	if !ok {
		return v
	}
	instrs := ret.Block().Instrs
	for j := len(instrs) - 1; j >= 0; j-- {
		if st, ok := instrs[j].(*ssa.Store); ok && st.Addr == a {
			return st.Val
		}
	}
	return v
}

// ReturnsNilError reports whether the last result of ret is the nil constant.
func ReturnsNilError(ret *ssa.Return) bool {
	n := len(ret.Results)
	if n == 0 {
		return true
	}
	return IsNilConst(ReturnResult(ret, n-1))
}
