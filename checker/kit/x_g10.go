package kit

// Pathx — bounded, path-sensitive abstract evaluation of SSA (group g10: C28–C30).
//
// A rule picks a finite assignment of the few quantities a predicate depends on (a sample
// clock, a sample timestamp, an enumerated state, "signature valid yes/no") and Pathx follows
// every CFG path of a function under that assignment: integer/duration/time arithmetic,
// comparisons, phis (by incoming edge), non-escaping local cells and, on request, statically
// called repository functions are interpreted; everything else is "unknown", and a branch on
// an unknown condition is explored both ways. The rule observes which instructions / returns
// are reachable. Nothing from the repository is executed: this is evaluation of branch
// conditions over a finite abstract domain (K7), robust against re-spelling of a predicate
// (`!(a<=b)`, swapped operands, `.Abs()` vs. the if-negate idiom, helper extraction).

import (
	"fmt"
	"go/constant"
	"go/token"
	"go/types"
	"math"
	"strings"

	"golang.org/x/tools/go/ssa"
)

// PxKind classifies an abstract value.
type PxKind uint8

const (
	PxUnknown PxKind = iota
	PxInt            // integers; time.Duration (ns); time.Time (ns since an arbitrary epoch)
	PxFloat
	PxBool
	PxNil    // nil pointer / interface / func / map / slice
	PxNonNil // some non-nil pointer / interface value
	PxSym    // a symbolic non-nil object or address, identified by Sym ("recv", "recv.cfg.X")
	PxFunc   // a function value: Fn with the values bound to its free variables
	PxAddr   // the address of (a part of) a local: Alloc A, field/element path Path
	PxAgg    // a struct value held field by field (Agg, indexed by field number; immutable)
)

// PxVal is an abstract value.
type PxVal struct {
	K    PxKind
	I    int64
	F    float64
	B    bool
	Sym  string
	Fn   *ssa.Function
	Bind []PxVal
	A    *ssa.Alloc
	Path string
	Agg  map[int]PxVal
}

// NonNilLike reports whether the value is known to be a non-nil reference.
func (v PxVal) NonNilLike() bool {
	switch v.K {
	case PxNonNil, PxSym, PxFunc, PxAddr:
		return true
	}
	return false
}

type pxCell struct {
	A    *ssa.Alloc
	Path string
}

// pxMem is the memory of the locals on one path: cells keyed by (alloc, field path). The cell
// with path "!" marks an alloc whose address escaped to code that is not interpreted.
type pxMem map[pxCell]PxVal

func PxI(i int64) PxVal     { return PxVal{K: PxInt, I: i} }
func PxB(b bool) PxVal      { return PxVal{K: PxBool, B: b} }
func PxS(s string) PxVal    { return PxVal{K: PxSym, Sym: s} }
func PxF(f float64) PxVal   { return PxVal{K: PxFloat, F: f} }
func (v PxVal) Known() bool { return v.K != PxUnknown }

// PxFrame is the state of one activation on one path.
type PxFrame struct {
	Fn    *ssa.Function
	Depth int
	env   map[ssa.Value]PxVal
	tup   map[ssa.Value][]PxVal
	mem   pxMem // shared by the frames of one path
	free  map[*ssa.FreeVar]PxVal
	vis   map[*ssa.BasicBlock]int
	run   *PxRun
}

// CallFunc interprets the function value fv (a closure or function resolved on this path) on
// the given arguments, on a copy of the current path's memory, and returns the result tuples
// of all its returning paths. It lets a hook model a library function that calls back
// (maps.DeleteFunc, slices.ContainsFunc, sort.Slice...). ok=false: not a known function value.
func (fr *PxFrame) CallFunc(fv PxVal, args []PxVal) (results [][]PxVal, ok bool) {
	if fv.K != PxFunc || fv.Fn == nil || len(fv.Fn.Blocks) == 0 || fr.run == nil {
		return nil, false
	}
	r := fr.run
	callee := newPxFrame(fv.Fn, fr.Depth+1)
	callee.run = r
	callee.mem = make(pxMem, len(fr.mem))
	for k, v := range fr.mem {
		callee.mem[k] = v
	}
	for k, p := range fv.Fn.Params {
		if k < len(args) {
			callee.env[p] = args[k]
		}
	}
	if len(fv.Fn.FreeVars) > 0 {
		callee.free = map[*ssa.FreeVar]PxVal{}
		for k, v := range fv.Fn.FreeVars {
			if k < len(fv.Bind) {
				callee.free[v] = fv.Bind[k]
			}
		}
	}
	r.block(callee, fv.Fn.Blocks[0], nil, 0, func(res []PxVal, _ pxMem) {
		results = append(results, res)
	})
	return results, true
}

func (fr *PxFrame) clone() *PxFrame {
	n := &PxFrame{Fn: fr.Fn, Depth: fr.Depth,
		env: make(map[ssa.Value]PxVal, len(fr.env)), tup: make(map[ssa.Value][]PxVal, len(fr.tup)),
		mem: make(pxMem, len(fr.mem)), free: fr.free, vis: make(map[*ssa.BasicBlock]int, len(fr.vis)), run: fr.run}
	for k, v := range fr.env {
		n.env[k] = v
	}
	for k, v := range fr.tup {
		n.tup[k] = v
	}
	for k, v := range fr.mem {
		n.mem[k] = v
	}
	for k, v := range fr.vis {
		n.vis[k] = v
	}
	return n
}

// PxConfig are the rule's hooks. All are optional.
type PxConfig struct {
	// Load gives the value stored at a symbolic address ("recv.cfg.PersistState").
	Load func(fr *PxFrame, sym string, at ssa.Instruction) (PxVal, bool)
	// Call gives the result(s) of a call the generic evaluator does not model. It is asked
	// before the built-in models, so a rule can override them.
	Call func(fr *PxFrame, c ssa.CallInstruction, args []PxVal) ([]PxVal, bool)
	// Compute overrides the generic evaluation of a non-call value instruction (map iteration,
	// lookups, ...). More than one result makes the instruction a tuple.
	Compute func(fr *PxFrame, v ssa.Value) ([]PxVal, bool)
	// Descend: interpret this statically called function instead of treating it as unknown.
	Descend func(c ssa.CallInstruction, callee *ssa.Function) bool
	// Visit is called before an instruction executes on a path; false cuts the path there.
	Visit func(fr *PxFrame, in ssa.Instruction) bool
	// Return is called for each return of the top function that a path reaches.
	Return func(fr *PxFrame, ret *ssa.Return, res []PxVal)
	// Missing gives a value to an operand that was not computed on the path (parameters of
	// the top function not bound by args, free variables, values defined before the start).
	Missing func(fr *PxFrame, v ssa.Value) (PxVal, bool)
	Now     int64 // time.Now() in ns
	// MaxVisits bounds how often one block is entered on one path (default 2).
	MaxVisits int
	// MaxSteps bounds the total work (default 400000 instructions); see PxRun.Truncated.
	MaxSteps int
	MaxDepth int // call depth for Descend (default 8)
}

// PxRun is one exploration.
type PxRun struct {
	cfg       *PxConfig
	steps     int
	Truncated bool // the step budget was exhausted: reachability results are incomplete
	Paths     int  // number of path ends (returns, cuts, panics)
}

// PathxExplore explores fn from its entry with the given argument values (receiver first).
func PathxExplore(fn *ssa.Function, args []PxVal, cfg *PxConfig) *PxRun {
	r := newPxRun(cfg)
	if fn == nil || len(fn.Blocks) == 0 {
		return r
	}
	fr := newPxFrame(fn, 0)
	fr.run = r
	for i, p := range fn.Params {
		if i < len(args) {
			fr.env[p] = args[i]
		}
	}
	r.block(fr, fn.Blocks[0], nil, 0, nil)
	return r
}

// PathxExploreFrom explores fn starting right after instruction `after`, with nothing known
// about values computed earlier (they are "missing").
func PathxExploreFrom(after ssa.Instruction, cfg *PxConfig) *PxRun {
	r := newPxRun(cfg)
	fn := after.Parent()
	fr := newPxFrame(fn, 0)
	fr.run = r
	r.block(fr, after.Block(), nil, InstrIndex(after)+1, nil)
	return r
}

func newPxRun(cfg *PxConfig) *PxRun {
	c := *cfg
	if c.MaxVisits == 0 {
		c.MaxVisits = 2
	}
	if c.MaxSteps == 0 {
		c.MaxSteps = 400000
	}
	if c.MaxDepth == 0 {
		c.MaxDepth = 8
	}
	return &PxRun{cfg: &c}
}

func newPxFrame(fn *ssa.Function, depth int) *PxFrame {
	return &PxFrame{Fn: fn, Depth: depth, env: map[ssa.Value]PxVal{}, tup: map[ssa.Value][]PxVal{}, mem: pxMem{}, vis: map[*ssa.BasicBlock]int{}}
}

// Get returns the abstract value of an operand on the current path.
func (r *PxRun) get(fr *PxFrame, v ssa.Value) PxVal {
	if v == nil {
		return PxVal{}
	}
	if x, ok := fr.env[v]; ok {
		return x
	}
	switch c := v.(type) {
	case *ssa.Const:
		return pxConst(c)
	case *ssa.Global:
		return PxS("global:" + c.Name())
	case *ssa.Function:
		return PxVal{K: PxFunc, Fn: c}
	case *ssa.FreeVar:
		if x, ok := fr.free[c]; ok {
			return x
		}
	}
	if r.cfg.Missing != nil {
		if x, ok := r.cfg.Missing(fr, v); ok {
			return x
		}
	}
	return PxVal{}
}

// Value exposes the value an SSA value has on the frame's path (for hooks).
func (fr *PxFrame) Value(v ssa.Value) (PxVal, bool) {
	x, ok := fr.env[v]
	if !ok {
		if c, isc := v.(*ssa.Const); isc {
			return pxConst(c), true
		}
	}
	return x, ok
}

func pxConst(c *ssa.Const) PxVal {
	if c.Value == nil {
		switch c.Type().Underlying().(type) {
		case *types.Pointer, *types.Interface, *types.Signature, *types.Map, *types.Slice, *types.Chan:
			return PxVal{K: PxNil}
		}
		return PxVal{} // zero value of an aggregate
	}
	switch c.Value.Kind() {
	case constant.Bool:
		return PxB(constant.BoolVal(c.Value))
	case constant.Int:
		if i, ok := constant.Int64Val(c.Value); ok {
			return PxI(i)
		}
		if u, ok := constant.Uint64Val(c.Value); ok {
			return PxI(int64(u))
		}
	case constant.Float:
		f, _ := constant.Float64Val(c.Value)
		if b, ok := c.Type().Underlying().(*types.Basic); ok && b.Info()&types.IsInteger != 0 {
			return PxI(int64(f))
		}
		return PxF(f)
	}
	return PxVal{}
}

func (r *PxRun) end() { r.Paths++ }

// block executes instructions of b from index idx. cont, when non-nil, receives the results
// of a return (callee frame).
func (r *PxRun) block(fr *PxFrame, b *ssa.BasicBlock, prev *ssa.BasicBlock, idx int, cont func([]PxVal, pxMem)) {
	if idx == 0 {
		fr.vis[b]++
		if fr.vis[b] > r.cfg.MaxVisits {
			r.end()
			return
		}
	}
	for i := idx; i < len(b.Instrs); i++ {
		in := b.Instrs[i]
		r.steps++
		if r.steps > r.cfg.MaxSteps {
			r.Truncated = true
			return
		}
		if r.cfg.Visit != nil {
			if _, isPhi := in.(*ssa.Phi); !isPhi {
				if !r.cfg.Visit(fr, in) {
					r.end()
					return
				}
			}
		}
		switch x := in.(type) {
		case *ssa.Phi:
			v := PxVal{}
			if prev != nil {
				for k, p := range b.Preds {
					if p == prev && k < len(x.Edges) {
						v = r.get(fr, x.Edges[k])
					}
				}
			}
			fr.env[x] = v
		case *ssa.If:
			c := r.get(fr, x.Cond)
			if c.K == PxBool {
				if c.B {
					r.block(fr, b.Succs[0], b, 0, cont)
				} else {
					r.block(fr, b.Succs[1], b, 0, cont)
				}
				return
			}
			other := fr.clone()
			r.refine(fr, x.Cond, true)
			r.refine(other, x.Cond, false)
			r.block(fr, b.Succs[0], b, 0, cont)
			r.block(other, b.Succs[1], b, 0, cont)
			return
		case *ssa.Jump:
			r.block(fr, b.Succs[0], b, 0, cont)
			return
		case *ssa.Return:
			res := make([]PxVal, len(x.Results))
			for k, rv := range x.Results {
				res[k] = r.get(fr, rv)
			}
			if cont != nil {
				cont(res, fr.mem)
			} else {
				if r.cfg.Return != nil {
					r.cfg.Return(fr, x, res)
				}
				r.end()
			}
			return
		case *ssa.Panic:
			r.end()
			return
		case *ssa.Store:
			addr, val := r.get(fr, x.Addr), r.get(fr, x.Val)
			if addr.K == PxAddr {
				fr.mem.store(addr.A, addr.Path, val)
			} else {
				r.escape(fr, val) // stored somewhere we do not model
			}
		case *ssa.Go, *ssa.Defer:
			for _, a := range in.(ssa.CallInstruction).Common().Args {
				r.escape(fr, r.get(fr, a))
			}
		case *ssa.MapUpdate:
			r.escape(fr, r.get(fr, x.Value))
		case *ssa.Send:
			r.escape(fr, r.get(fr, x.X))
		case *ssa.Call:
			if r.call(fr, x, b, prev, i, cont) {
				return // continuation took over the rest of the block
			}
		case ssa.Value:
			if r.cfg.Compute != nil {
				if res, ok := r.cfg.Compute(fr, x); ok {
					if len(res) == 1 {
						fr.env[x] = res[0]
					} else if len(res) > 1 {
						fr.tup[x] = res
					}
					continue
				}
			}
			fr.env[x] = r.compute(fr, x)
		}
	}
	r.end()
}

func pxZero(t types.Type) PxVal {
	switch u := t.Underlying().(type) {
	case *types.Basic:
		switch {
		case u.Info()&types.IsBoolean != 0:
			return PxB(false)
		case u.Info()&types.IsInteger != 0:
			return PxI(0)
		case u.Info()&types.IsFloat != 0:
			return PxF(0)
		}
	case *types.Pointer, *types.Interface, *types.Signature, *types.Map, *types.Slice, *types.Chan:
		return PxVal{K: PxNil}
	}
	return PxVal{}
}

// call evaluates a call instruction. It returns true when the remainder of the block has been
// executed by a continuation (interprocedural descent).
func (r *PxRun) call(fr *PxFrame, x *ssa.Call, b, prev *ssa.BasicBlock, i int, cont func([]PxVal, pxMem)) bool {
	args := make([]PxVal, len(x.Call.Args))
	for k, a := range x.Call.Args {
		args[k] = r.get(fr, a)
	}
	set := func(res []PxVal) {
		if len(res) == 1 {
			fr.env[x] = res[0]
		} else if len(res) > 1 {
			fr.tup[x] = res
		}
	}
	if r.cfg.Call != nil {
		if res, ok := r.cfg.Call(fr, x, args); ok {
			set(res)
			return false
		}
	}
	cal := CalleeOf(x)
	if res, ok := pxModel(r, cal, x, args); ok {
		set(res)
		return false
	}
	// the function to interpret: a static callee, or a function value resolved on this path
	// (closure, bound method, function-typed parameter or field)
	target := cal.Static
	var binds []PxVal
	if !x.Call.IsInvoke() {
		if fv := r.get(fr, x.Call.Value); fv.K == PxFunc && fv.Fn != nil {
			target, binds = fv.Fn, fv.Bind
		}
	}
	if target != nil && len(target.Blocks) > 0 && fr.Depth < r.cfg.MaxDepth &&
		((target.Synthetic != "" && !strings.HasPrefix(target.Synthetic, "instance of")) || (r.cfg.Descend != nil && r.cfg.Descend(x, target))) {
		callee := newPxFrame(target, fr.Depth+1)
		callee.run = r
		callee.mem = fr.mem // one memory per path
		for k, p := range target.Params {
			if k < len(args) {
				callee.env[p] = args[k]
			}
		}
		if len(target.FreeVars) > 0 {
			callee.free = map[*ssa.FreeVar]PxVal{}
			for k, fv := range target.FreeVars {
				if k < len(binds) {
					callee.free[fv] = binds[k]
				}
			}
		}
		first := true
		base := fr
		r.block(callee, target.Blocks[0], nil, 0, func(res []PxVal, mem pxMem) {
			cur := base
			if !first {
				cur = base.clone()
			} else {
				// keep an untouched copy for later continuations
				base = fr.clone()
				cur = fr
			}
			first = false
			cur.mem = mem
			if len(res) == 1 {
				cur.env[x] = res[0]
			} else if len(res) > 1 {
				cur.tup[x] = res
			}
			r.block(cur, b, prev, i+1, cont)
		})
		return true
	}
	// not interpreted: whatever it was handed may be written or retained
	for _, a := range args {
		r.escape(fr, a)
	}
	return false
}

// escape: the value leaves the interpreted world; locals it points to become unknown.
func (r *PxRun) escape(fr *PxFrame, v PxVal) {
	switch v.K {
	case PxAddr:
		fr.mem[pxCell{v.A, "!"}] = PxVal{K: PxBool, B: true}
	case PxFunc:
		for _, b := range v.Bind {
			r.escape(fr, b)
		}
	case PxAgg:
		for _, e := range v.Agg {
			r.escape(fr, e)
		}
	}
}

// refine records what taking a branch on an undetermined condition tells about its operands.
func (r *PxRun) refine(fr *PxFrame, cond ssa.Value, val bool) {
	if _, isConst := cond.(*ssa.Const); isConst {
		return
	}
	fr.env[cond] = PxB(val)
	switch x := cond.(type) {
	case *ssa.UnOp:
		if x.Op == token.NOT {
			r.refine(fr, x.X, !val)
		}
	case *ssa.BinOp:
		if x.Op != token.EQL && x.Op != token.NEQ {
			return
		}
		eq := val == (x.Op == token.EQL)
		for _, pair := range [][2]ssa.Value{{x.X, x.Y}, {x.Y, x.X}} {
			c, isC := pair[1].(*ssa.Const)
			if !isC {
				continue
			}
			if _, isConst := pair[0].(*ssa.Const); isConst {
				continue
			}
			cur := r.get(fr, pair[0])
			if cur.K != PxUnknown {
				continue
			}
			cv := pxConst(c)
			switch {
			case cv.K == PxNil && eq:
				fr.env[pair[0]] = PxVal{K: PxNil}
			case cv.K == PxNil && !eq:
				fr.env[pair[0]] = PxVal{K: PxNonNil}
			case (cv.K == PxInt || cv.K == PxBool) && eq:
				fr.env[pair[0]] = cv
			}
		}
	}
}

func pxSplit(path string) []string {
	var out []string
	for _, p := range strings.Split(path, ".") {
		if p != "" {
			out = append(out, p)
		}
	}
	return out
}

func (m pxMem) tainted(a *ssa.Alloc) bool { _, t := m[pxCell{a, "!"}]; return t }

func (m pxMem) store(a *ssa.Alloc, path string, v PxVal) {
	if m.tainted(a) {
		return
	}
	for k := range m {
		if k.A == a && strings.HasPrefix(k.Path, path+".") {
			delete(m, k)
		}
	}
	m[pxCell{a, path}] = v
}

// load reads the cell (a, path); t is the type of the loaded value (for zero values).
func (m pxMem) load(a *ssa.Alloc, path string, t types.Type) PxVal {
	if m.tainted(a) {
		return PxVal{}
	}
	// newer writes to parts of the cell
	parts := map[string]bool{}
	for k := range m {
		if k.A == a && strings.HasPrefix(k.Path, path+".") {
			rest := pxSplit(strings.TrimPrefix(k.Path, path))
			if len(rest) > 0 {
				parts[rest[0]] = true
			}
		}
	}
	base, have := m[pxCell{a, path}]
	if len(parts) > 0 {
		agg := map[int]PxVal{}
		if have && base.K == PxAgg {
			for i, e := range base.Agg {
				agg[i] = e
			}
		}
		st, _ := t.Underlying().(*types.Struct)
		for p := range parts {
			var idx int
			if _, err := fmt.Sscan(p, &idx); err != nil {
				continue
			}
			var ft types.Type = types.Typ[types.Invalid]
			if st != nil && idx < st.NumFields() {
				ft = st.Field(idx).Type()
			}
			agg[idx] = m.load(a, path+"."+p, ft)
		}
		return PxVal{K: PxAgg, Agg: agg}
	}
	if have {
		return base
	}
	// a part of an enclosing cell written as a whole
	segs := pxSplit(path)
	for n := len(segs) - 1; n >= 0; n-- {
		anc := ""
		if n > 0 {
			anc = "." + strings.Join(segs[:n], ".")
		}
		v, ok := m[pxCell{a, anc}]
		if !ok {
			continue
		}
		for _, seg := range segs[n:] {
			var idx int
			if _, err := fmt.Sscan(seg, &idx); err != nil || v.K != PxAgg {
				return PxVal{}
			}
			e, ok := v.Agg[idx]
			if !ok {
				return pxZero(t) // only exact for the last segment; good enough
			}
			v = e
		}
		return v
	}
	return pxZero(t)
}

func (r *PxRun) compute(fr *PxFrame, v ssa.Value) PxVal {
	switch x := v.(type) {
	case *ssa.Alloc:
		// a fresh, zeroed local
		for k := range fr.mem {
			if k.A == x {
				delete(fr.mem, k)
			}
		}
		return PxVal{K: PxAddr, A: x}
	case *ssa.FieldAddr:
		base := r.get(fr, x.X)
		switch base.K {
		case PxSym:
			if f := FieldOfAddr(x); f != nil {
				return PxS(base.Sym + "." + f.Name())
			}
		case PxAddr:
			return PxVal{K: PxAddr, A: base.A, Path: fmt.Sprintf("%s.%d", base.Path, x.Field)}
		}
		return PxVal{K: PxNonNil}
	case *ssa.Field:
		base := r.get(fr, x.X)
		switch base.K {
		case PxSym:
			if f := FieldOfAddr(x); f != nil {
				return r.load(fr, base.Sym+"."+f.Name(), x)
			}
		case PxAgg:
			if e, ok := base.Agg[x.Field]; ok {
				return e
			}
			return pxZero(x.Type())
		}
		return PxVal{}
	case *ssa.IndexAddr:
		base := r.get(fr, x.X)
		if base.K == PxAddr {
			if idx := r.get(fr, x.Index); idx.K == PxInt {
				return PxVal{K: PxAddr, A: base.A, Path: fmt.Sprintf("%s.%d", base.Path, idx.I)}
			}
			r.escape(fr, base) // element not identifiable: the local is no longer tracked
		}
		return PxVal{K: PxNonNil}
	case *ssa.UnOp:
		switch x.Op {
		case token.MUL:
			addr := r.get(fr, x.X)
			switch addr.K {
			case PxSym:
				return r.load(fr, addr.Sym, x)
			case PxAddr:
				return fr.mem.load(addr.A, addr.Path, x.Type())
			}
			return PxVal{}
		case token.NOT:
			o := r.get(fr, x.X)
			if o.K == PxBool {
				return PxB(!o.B)
			}
		case token.SUB:
			o := r.get(fr, x.X)
			switch o.K {
			case PxInt:
				return PxI(pxNorm(-o.I, x.Type()))
			case PxFloat:
				return PxF(-o.F)
			}
		case token.XOR:
			o := r.get(fr, x.X)
			if o.K == PxInt {
				return PxI(pxNorm(^o.I, x.Type()))
			}
		}
		return PxVal{}
	case *ssa.BinOp:
		return pxBinOp(x, r.get(fr, x.X), r.get(fr, x.Y))
	case *ssa.Convert:
		o := r.get(fr, x.X)
		tb, _ := x.Type().Underlying().(*types.Basic)
		if tb == nil {
			return PxVal{}
		}
		switch o.K {
		case PxInt:
			if tb.Info()&types.IsInteger != 0 {
				return PxI(pxNorm(o.I, x.Type()))
			}
			if tb.Info()&types.IsFloat != 0 {
				if pxUnsigned(x.X.Type()) {
					return PxF(float64(uint64(o.I)))
				}
				return PxF(float64(o.I))
			}
		case PxFloat:
			if tb.Info()&types.IsInteger != 0 {
				return PxI(pxNorm(int64(o.F), x.Type()))
			}
			if tb.Info()&types.IsFloat != 0 {
				return o
			}
		}
		return PxVal{}
	case *ssa.ChangeType:
		return r.get(fr, x.X)
	case *ssa.MakeInterface:
		r.escape(fr, r.get(fr, x.X))
		return PxVal{K: PxNonNil}
	case *ssa.ChangeInterface:
		return r.get(fr, x.X)
	case *ssa.TypeAssert:
		if x.CommaOk {
			return PxVal{}
		}
		o := r.get(fr, x.X)
		switch o.K {
		case PxInt, PxFloat, PxBool, PxSym:
			return o
		}
		return PxVal{}
	case *ssa.MakeClosure:
		fn, _ := x.Fn.(*ssa.Function)
		binds := make([]PxVal, len(x.Bindings))
		for k, bv := range x.Bindings {
			binds[k] = r.get(fr, bv)
		}
		return PxVal{K: PxFunc, Fn: fn, Bind: binds}
	case *ssa.Extract:
		if t, ok := fr.tup[x.Tuple]; ok && x.Index < len(t) {
			return t[x.Index]
		}
		return PxVal{}
	case *ssa.MakeMap, *ssa.MakeChan, *ssa.MakeSlice:
		return PxVal{K: PxNonNil}
	case *ssa.Slice:
		return PxVal{}
	}
	return PxVal{}
}

func (r *PxRun) load(fr *PxFrame, sym string, at ssa.Instruction) PxVal {
	if r.cfg.Load != nil {
		if v, ok := r.cfg.Load(fr, sym, at); ok {
			return v
		}
	}
	// a struct value loaded from a symbolic address keeps the name, so that Field
	// extractions and further FieldAddr selections stay symbolic
	if v, ok := at.(ssa.Value); ok {
		t := v.Type()
		if _, isStruct := t.Underlying().(*types.Struct); isStruct {
			return PxS(sym)
		}
	}
	return PxVal{}
}

func pxUnsigned(t types.Type) bool {
	b, ok := t.Underlying().(*types.Basic)
	return ok && b.Info()&types.IsUnsigned != 0
}

// pxNorm truncates/sign-extends i to the width of integer type t.
func pxNorm(i int64, t types.Type) int64 {
	b, ok := t.Underlying().(*types.Basic)
	if !ok {
		return i
	}
	switch b.Kind() {
	case types.Int8:
		return int64(int8(i))
	case types.Int16:
		return int64(int16(i))
	case types.Int32:
		return int64(int32(i))
	case types.Uint8:
		return int64(uint8(i))
	case types.Uint16:
		return int64(uint16(i))
	case types.Uint32:
		return int64(uint32(i))
	}
	return i
}

func pxBinOp(x *ssa.BinOp, a, b PxVal) PxVal {
	op := x.Op
	// nil-ness and identity
	if op == token.EQL || op == token.NEQ {
		eq, known := false, false
		switch {
		case a.K == PxNil && b.K == PxNil:
			eq, known = true, true
		case a.K == PxNil && b.NonNilLike(), b.K == PxNil && a.NonNilLike():
			eq, known = false, true
		case a.K == PxSym && b.K == PxSym && a.Sym == b.Sym:
			eq, known = true, true
		case a.K == PxBool && b.K == PxBool:
			eq, known = a.B == b.B, true
		case a.K == PxInt && b.K == PxInt:
			eq, known = a.I == b.I, true
		case a.K == PxFloat && b.K == PxFloat:
			eq, known = a.F == b.F, true
		}
		if !known {
			return PxVal{}
		}
		return PxB(eq == (op == token.EQL))
	}
	if a.K == PxBool && b.K == PxBool {
		switch op {
		case token.AND, token.LAND:
			return PxB(a.B && b.B)
		case token.OR, token.LOR:
			return PxB(a.B || b.B)
		case token.XOR:
			return PxB(a.B != b.B)
		}
		return PxVal{}
	}
	if a.K == PxFloat && b.K == PxFloat {
		switch op {
		case token.ADD:
			return PxF(a.F + b.F)
		case token.SUB:
			return PxF(a.F - b.F)
		case token.MUL:
			return PxF(a.F * b.F)
		case token.QUO:
			return PxF(a.F / b.F)
		case token.LSS:
			return PxB(a.F < b.F)
		case token.LEQ:
			return PxB(a.F <= b.F)
		case token.GTR:
			return PxB(a.F > b.F)
		case token.GEQ:
			return PxB(a.F >= b.F)
		}
		return PxVal{}
	}
	if a.K != PxInt || b.K != PxInt {
		return PxVal{}
	}
	uns := pxUnsigned(x.X.Type())
	switch op {
	case token.ADD:
		return PxI(pxNorm(a.I+b.I, x.Type()))
	case token.SUB:
		return PxI(pxNorm(a.I-b.I, x.Type()))
	case token.MUL:
		return PxI(pxNorm(a.I*b.I, x.Type()))
	case token.QUO:
		if b.I == 0 {
			return PxVal{}
		}
		if uns {
			return PxI(pxNorm(int64(uint64(a.I)/uint64(b.I)), x.Type()))
		}
		return PxI(pxNorm(a.I/b.I, x.Type()))
	case token.REM:
		if b.I == 0 {
			return PxVal{}
		}
		if uns {
			return PxI(pxNorm(int64(uint64(a.I)%uint64(b.I)), x.Type()))
		}
		return PxI(pxNorm(a.I%b.I, x.Type()))
	case token.AND:
		return PxI(a.I & b.I)
	case token.OR:
		return PxI(a.I | b.I)
	case token.XOR:
		return PxI(a.I ^ b.I)
	case token.AND_NOT:
		return PxI(a.I &^ b.I)
	case token.SHL:
		if b.I < 0 || b.I > 63 {
			return PxVal{}
		}
		return PxI(pxNorm(a.I<<uint(b.I), x.Type()))
	case token.SHR:
		if b.I < 0 || b.I > 63 {
			return PxVal{}
		}
		if uns {
			return PxI(int64(uint64(a.I) >> uint(b.I)))
		}
		return PxI(a.I >> uint(b.I))
	case token.LSS, token.LEQ, token.GTR, token.GEQ:
		var c int
		if uns {
			ua, ub := uint64(a.I), uint64(b.I)
			switch {
			case ua < ub:
				c = -1
			case ua > ub:
				c = 1
			}
		} else {
			switch {
			case a.I < b.I:
				c = -1
			case a.I > b.I:
				c = 1
			}
		}
		return PxB(CmpUnder(op, Ordering(c)))
	}
	return PxVal{}
}

// pxModel: semantics of the std functions the rules' predicates use (package time, math,
// error constructors, min/max builtins). Times and durations are int64 nanoseconds.
func pxModel(r *PxRun, cal Callee, c ssa.CallInstruction, a []PxVal) ([]PxVal, bool) {
	one := func(v PxVal) ([]PxVal, bool) { return []PxVal{v}, true }
	allInt := func(n int) bool {
		if len(a) < n {
			return false
		}
		for i := 0; i < n; i++ {
			if a[i].K != PxInt {
				return false
			}
		}
		return true
	}
	const sec = int64(1e9)
	if cal.Built != "" {
		switch cal.Built {
		case "min", "max":
			if allInt(len(a)) && len(a) > 0 {
				m := a[0].I
				for _, v := range a[1:] {
					if (cal.Built == "min") == (v.I < m) {
						m = v.I
					}
				}
				return one(PxI(m))
			}
		}
		return nil, false
	}
	switch cal.Pkg {
	case "time":
		switch cal.Recv {
		case "":
			switch cal.Name {
			case "Now":
				return one(PxI(r.cfg.Now))
			case "Since":
				if allInt(1) {
					return one(PxI(r.cfg.Now - a[0].I))
				}
				return one(PxVal{})
			case "Until":
				if allInt(1) {
					return one(PxI(a[0].I - r.cfg.Now))
				}
				return one(PxVal{})
			case "Unix":
				if allInt(2) {
					return one(PxI(a[0].I*sec + a[1].I))
				}
				return one(PxVal{})
			case "UnixMilli":
				if allInt(1) {
					return one(PxI(a[0].I * 1e6))
				}
				return one(PxVal{})
			}
		case "Time":
			switch cal.Name {
			case "Sub":
				if allInt(2) {
					return one(PxI(a[0].I - a[1].I))
				}
			case "Add":
				if allInt(2) {
					return one(PxI(a[0].I + a[1].I))
				}
			case "After":
				if allInt(2) {
					return one(PxB(a[0].I > a[1].I))
				}
			case "Before":
				if allInt(2) {
					return one(PxB(a[0].I < a[1].I))
				}
			case "Equal":
				if allInt(2) {
					return one(PxB(a[0].I == a[1].I))
				}
			case "Compare":
				if allInt(2) {
					switch {
					case a[0].I < a[1].I:
						return one(PxI(-1))
					case a[0].I > a[1].I:
						return one(PxI(1))
					}
					return one(PxI(0))
				}
			case "Unix":
				if allInt(1) {
					return one(PxI(int64(math.Floor(float64(a[0].I) / 1e9))))
				}
			case "UnixNano":
				if allInt(1) {
					return one(a[0])
				}
			case "UnixMilli":
				if allInt(1) {
					return one(PxI(a[0].I / 1e6))
				}
			case "UTC", "Local":
				return one(a[0])
			}
			return one(PxVal{})
		case "Duration":
			if !allInt(1) {
				return one(PxVal{})
			}
			d := a[0].I
			switch cal.Name {
			case "Abs":
				if d < 0 {
					d = -d
				}
				return one(PxI(d))
			case "Nanoseconds":
				return one(PxI(d))
			case "Microseconds":
				return one(PxI(d / 1e3))
			case "Milliseconds":
				return one(PxI(d / 1e6))
			case "Seconds":
				return one(PxF(float64(d) / 1e9))
			case "Minutes":
				return one(PxF(float64(d) / 6e10))
			case "Hours":
				return one(PxF(float64(d) / 3.6e12))
			}
			return one(PxVal{})
		}
	case "math":
		if cal.Name == "Abs" && len(a) == 1 && a[0].K == PxFloat {
			return one(PxF(math.Abs(a[0].F)))
		}
	case "fmt":
		if cal.Name == "Errorf" {
			return one(PxVal{K: PxNonNil})
		}
	case "errors":
		if cal.Name == "New" {
			return one(PxVal{K: PxNonNil})
		}
	}
	return nil, false
}
