package kit

import (
	"go/token"
	"go/types"

	"golang.org/x/tools/go/ssa"
)

// PathFlow is a backward value-flow walk specialised for "which values is this string
// (a file-system path) built from". It differs from Slice in three ways that taint-style
// rules need: calls to functions without a followed body are transparent (filepath.Clean,
// filepath.Join, strings.TrimSuffix, fmt.Sprintf ... derive their result from their
// arguments), a rule can declare *barriers* (sanitiser results: the walk stops there and
// records the barrier) and *sources* (tainted origins: the walk stops there and records the
// source), and it can be run in "leading component" mode where filepath.Join(a, b...) and
// a+b derive from a only (the question "where does the directory prefix of this path come
// from").
type PathFlow struct {
	Prog *Program
	// Source: v is a tainted origin. Checked before Barrier.
	Source func(v ssa.Value) bool
	// Barrier: v is a sanitised value; the walk does not look behind it.
	Barrier func(v ssa.Value) bool
	// LeadOnly: follow only the leading operand of path-joining operations.
	LeadOnly bool
	// FollowBodies: continue from a call result into the callee's returned values when the
	// callee is a repository function with a body. NoFollow can veto single callees.
	FollowBodies bool
	NoFollow     func(fn *ssa.Function) bool
	// FollowParams: continue from a parameter into the matching argument at every static call
	// site in the repository.
	FollowParams bool
	// FollowField: when non-nil and true for a field, continue from a load of that struct
	// field (not rooted in a local allocation) into every store to it in the repository.
	FollowField func(f *types.Var) bool
	// Mark: a transparent call (result index idx) that sets the chain mark for everything
	// walked below it (e.g. filepath.Dir: "the last component was stripped on the way").
	Mark func(c *ssa.Call, idx int) bool
	// OnBarrier is called for every barrier hit with the chain mark and a resolver that maps
	// a parameter of the function containing v (and of its callers on the current chain) to
	// the argument supplied at the call sites the walk came through.
	OnBarrier func(v ssa.Value, marked bool, argOf func(p *ssa.Parameter) ssa.Value)
	// FollowGlobals: continue from a load of a package-level variable into every store to it
	// in the repository.
	FollowGlobals bool
	// OnStateCross is called whenever the walk continues from a read of shared state (a
	// struct field not rooted in a local allocation, a map held in such a field, a
	// package-level variable) into a write of that state: read is the loading/lookup value,
	// write the storing instruction, val the value written.
	OnStateCross func(read ssa.Value, write ssa.Instruction, val ssa.Value)
	// OnBarrierChain is OnBarrier with the chain of call sites (outermost first) through
	// which the walk descended into the function that contains v.
	OnBarrierChain func(v ssa.Value, marked bool, chain []*ssa.Call)
	// ReturnFilter, when non-nil, is asked before the walk continues from a call result into
	// one return of the callee; chain ends with the call being entered. false = that
	// return is infeasible for this call and is skipped.
	ReturnFilter func(chain []*ssa.Call, ret *ssa.Return) bool
	// PhiEdge, when non-nil, filters the incoming edges of a phi (false = edge not followed).
	PhiEdge func(phi *ssa.Phi, i int) bool
	// Within: when non-nil the walk never leaves this function (parameters are leaves).
	Within *ssa.Function
	// MaxNodes bounds the walk (default 6000); exceeding it sets Top.
	MaxNodes int
	// MaxCross bounds the number of function-boundary crossings on one chain (default 10);
	// longer chains are cut (counted in Cut), not reported as Top.
	MaxCross int
}

// PathFlowResult is what one walk found.
type PathFlowResult struct {
	Sources  []ssa.Value      // tainted origins reached without crossing a barrier
	Barriers []ssa.Value      // barriers the walk stopped at
	Params   []*ssa.Parameter // parameters that ended the walk (no callers followed)
	Visited  map[ssa.Value]bool
	Top      bool // node budget exhausted: treat as unknown
	Cut      int  // chains abandoned after MaxCross function-boundary crossings
}

// Reached reports whether v was visited by the walk.
func (r *PathFlowResult) Reached(v ssa.Value) bool { return r.Visited[v] }

type pathCtx struct {
	call   *ssa.Call
	parent *pathCtx
	depth  int
}

type pathCtxKey struct {
	call   *ssa.Call
	parent *pathCtx
}

type pathVisit struct {
	v      ssa.Value
	ctx    *pathCtx
	marked bool
}

type pathWalker struct {
	q    *PathFlow
	res  *PathFlowResult
	n    int
	seen map[pathVisit]bool
	ctxs map[pathCtxKey]*pathCtx
}

// Walk runs the backward walk from v. Callee bodies entered from a call site are left
// through that same call site (one call-string context per chain), so a helper shared by
// two callers does not mix their arguments.
func (q *PathFlow) Walk(v ssa.Value) *PathFlowResult {
	if q.MaxNodes == 0 {
		q.MaxNodes = 6000
	}
	if q.MaxCross == 0 {
		q.MaxCross = 10
	}
	w := &pathWalker{q: q, res: &PathFlowResult{Visited: map[ssa.Value]bool{}}, seen: map[pathVisit]bool{}, ctxs: map[pathCtxKey]*pathCtx{}}
	w.visit(v, nil, 0, false)
	return w.res
}

func (w *pathWalker) enter(c *ssa.Call, parent *pathCtx) *pathCtx {
	k := pathCtxKey{c, parent}
	if x := w.ctxs[k]; x != nil {
		return x
	}
	d := 1
	if parent != nil {
		d = parent.depth + 1
	}
	x := &pathCtx{call: c, parent: parent, depth: d}
	w.ctxs[k] = x
	return x
}

func (w *pathWalker) visit(v ssa.Value, ctx *pathCtx, cross int, marked bool) {
	if v == nil || w.seen[pathVisit{v, ctx, marked}] {
		return
	}
	w.seen[pathVisit{v, ctx, marked}] = true
	w.res.Visited[v] = true
	w.n++
	if w.n > w.q.MaxNodes {
		w.res.Top = true
		return
	}
	if cross > w.q.MaxCross {
		w.res.Cut++ // chain longer than MaxCross function boundaries: left unexplored
		return
	}
	if w.q.Source != nil && w.q.Source(v) {
		w.res.Sources = append(w.res.Sources, v)
		return
	}
	if w.q.Barrier != nil && w.q.Barrier(v) {
		w.res.Barriers = append(w.res.Barriers, v)
		if w.q.OnBarrier != nil {
			w.q.OnBarrier(v, marked, w.argOf(ctx))
		}
		if w.q.OnBarrierChain != nil {
			w.q.OnBarrierChain(v, marked, chainOf(ctx))
		}
		return
	}
	switch x := v.(type) {
	case *ssa.Const, *ssa.Global, *ssa.Function, *ssa.Builtin, *ssa.MakeClosure:
	case *ssa.Phi:
		for i, e := range x.Edges {
			if w.q.PhiEdge != nil && !w.q.PhiEdge(x, i) {
				continue
			}
			w.visit(e, ctx, cross, marked)
		}
	case *ssa.Extract:
		switch t := x.Tuple.(type) {
		case *ssa.Call:
			w.call(t, x.Index, ctx, cross, marked)
		default:
			w.visit(x.Tuple, ctx, cross, marked)
		}
	case *ssa.Call:
		w.call(x, 0, ctx, cross, marked)
	case *ssa.BinOp:
		w.visit(x.X, ctx, cross, marked)
		if !(w.q.LeadOnly && x.Op == token.ADD) {
			w.visit(x.Y, ctx, cross, marked)
		}
	case *ssa.UnOp:
		if x.Op == token.MUL {
			w.load(x, ctx, cross, marked)
		} else {
			w.visit(x.X, ctx, cross, marked)
		}
	case *ssa.Convert:
		w.visit(x.X, ctx, cross, marked)
	case *ssa.ChangeType:
		w.visit(x.X, ctx, cross, marked)
	case *ssa.MakeInterface:
		w.visit(x.X, ctx, cross, marked)
	case *ssa.ChangeInterface:
		w.visit(x.X, ctx, cross, marked)
	case *ssa.TypeAssert:
		w.visit(x.X, ctx, cross, marked)
	case *ssa.Slice:
		w.visit(x.X, ctx, cross, marked)
	case *ssa.Index:
		w.visit(x.X, ctx, cross, marked)
	case *ssa.IndexAddr:
		w.visit(x.X, ctx, cross, marked)
	case *ssa.Lookup:
		w.lookup(x, ctx, cross, marked)
	case *ssa.Range:
		w.visit(x.X, ctx, cross, marked)
	case *ssa.Next:
		w.visit(x.Iter, ctx, cross, marked)
	case *ssa.Field:
		w.visit(x.X, ctx, cross, marked)
	case *ssa.FieldAddr:
		w.memory(x, ctx, cross, marked)
	case *ssa.Alloc:
		w.memory(x, ctx, cross, marked)
	case *ssa.MakeSlice:
		w.memory(x, ctx, cross, marked)
	case *ssa.Parameter:
		w.param(x, ctx, cross, marked)
	case *ssa.FreeVar:
		w.freevar(x, ctx, cross, marked)
	}
}

// VariadicElems returns the values stored into the backing array of a variadic argument
// slice built at the call site (slice t[:] of new [n]T), in index order; nil otherwise.
func VariadicElems(v ssa.Value) []ssa.Value {
	sl, ok := v.(*ssa.Slice)
	if !ok {
		return nil
	}
	al, ok := sl.X.(*ssa.Alloc)
	if !ok || al.Referrers() == nil {
		return nil
	}
	byIdx := map[int64]ssa.Value{}
	max := int64(-1)
	for _, r := range *al.Referrers() {
		ia, ok := r.(*ssa.IndexAddr)
		if !ok || ia.Referrers() == nil {
			continue
		}
		idx, ok := ConstInt(ia.Index)
		if !ok {
			continue
		}
		for _, rr := range *ia.Referrers() {
			if st, ok := rr.(*ssa.Store); ok && st.Addr == ia {
				byIdx[idx] = st.Val
				if idx > max {
					max = idx
				}
			}
		}
	}
	var out []ssa.Value
	for i := int64(0); i <= max; i++ {
		if e, ok := byIdx[i]; ok {
			out = append(out, e)
		}
	}
	return out
}

func isStringish(t types.Type) bool {
	switch u := t.Underlying().(type) {
	case *types.Basic:
		return u.Info()&types.IsString != 0
	case *types.Slice:
		return isStringish(u.Elem()) || isByte(u.Elem())
	case *types.Interface:
		return true // ...interface{} of fmt.Sprintf
	}
	return false
}

func isByte(t types.Type) bool {
	b, ok := t.Underlying().(*types.Basic)
	return ok && b.Kind() == types.Uint8
}

func (w *pathWalker) call(c *ssa.Call, idx int, ctx *pathCtx, cross int, marked bool) {
	cal := CalleeOf(c)
	if cal.Built != "" {
		switch cal.Built {
		case "append", "min", "max":
			for _, a := range c.Call.Args {
				w.visit(a, ctx, cross, marked)
			}
		}
		return
	}
	if w.q.FollowBodies && cal.Static != nil && cal.Static.Blocks != nil && IsRepoPkg(FuncPkgPath(cal.Static)) &&
		(w.q.Within == nil) && (w.q.NoFollow == nil || !w.q.NoFollow(cal.Static)) && !inCtx(ctx, cal.Static) {
		inner := w.enter(c, ctx)
		for _, r := range Returns(cal.Static) {
			if w.q.ReturnFilter != nil && !w.q.ReturnFilter(chainOf(inner), r) {
				continue
			}
			if idx < len(r.Results) {
				w.visit(ReturnResult(r, idx), inner, cross+1, marked)
			}
		}
		return
	}
	// transparent call: the result derives from the string-like operands
	var ops []ssa.Value
	if c.Call.IsInvoke() {
		ops = append(ops, c.Call.Value)
	}
	for _, a := range c.Call.Args {
		if !isStringish(a.Type()) {
			continue
		}
		if elems := VariadicElems(a); elems != nil {
			ops = append(ops, elems...)
			continue
		}
		ops = append(ops, a)
	}
	if w.q.LeadOnly && len(ops) > 1 {
		// filepath.Join(a, b...), strings.TrimSuffix(s, suffix), strings.Replace(s, ...): the
		// leading operand carries the directory prefix. filepath.Rel(base, target) derives from target.
		if cal.Pkg == "path/filepath" && cal.Name == "Rel" {
			ops = ops[1:2]
		} else {
			ops = ops[:1]
		}
	}
	if w.q.Mark != nil && w.q.Mark(c, idx) {
		marked = true
	}
	for _, o := range ops {
		w.visit(o, ctx, cross, marked)
	}
}

// argOf maps a parameter to the argument supplied on the current call-site chain.
func (w *pathWalker) argOf(ctx *pathCtx) func(p *ssa.Parameter) ssa.Value {
	return func(p *ssa.Parameter) ssa.Value {
		var v ssa.Value = p
		for c := ctx; c != nil; c = c.parent {
			pp, ok := v.(*ssa.Parameter)
			if !ok {
				return v
			}
			fn := pp.Parent()
			if CalleeOf(c.call).Static != fn {
				return v
			}
			idx := -1
			for i, q := range fn.Params {
				if q == pp {
					idx = i
				}
			}
			if idx < 0 || idx >= len(c.call.Call.Args) {
				return v
			}
			v = c.call.Call.Args[idx]
		}
		return v
	}
}

// chainOf lists the call sites of a context, outermost first.
func chainOf(ctx *pathCtx) []*ssa.Call {
	var out []*ssa.Call
	for c := ctx; c != nil; c = c.parent {
		out = append(out, c.call)
	}
	for i, j := 0, len(out)-1; i < j; i, j = i+1, j-1 {
		out[i], out[j] = out[j], out[i]
	}
	return out
}

// inCtx: fn is already being walked on this chain (recursion).
func inCtx(ctx *pathCtx, fn *ssa.Function) bool {
	for c := ctx; c != nil; c = c.parent {
		if CalleeOf(c.call).Static == fn {
			return true
		}
	}
	return false
}

func (w *pathWalker) load(x *ssa.UnOp, ctx *pathCtx, cross int, marked bool) {
	switch a := x.X.(type) {
	case *ssa.FieldAddr:
		if allocRoot(a.X) != nil {
			w.memory(a, ctx, cross, marked)
			return
		}
		f := FieldOfAddr(a)
		if w.q.FollowField != nil && w.q.Prog != nil && w.q.Within == nil && f != nil && w.q.FollowField(f) {
			for _, acc := range w.q.Prog.FieldAccessesOfKind(f, FieldStore) {
				if w.q.OnStateCross != nil {
					w.q.OnStateCross(x, acc.Instr, acc.Val)
				}
				w.visit(acc.Val, nil, cross+1, marked)
			}
		}
	case *ssa.Alloc:
		if !w.reachingStores(a, x, ctx, cross, marked) {
			w.memory(a, ctx, cross, marked)
		}
	case *ssa.IndexAddr:
		if allocRoot(a) != nil {
			w.memory(a, ctx, cross, marked)
			return
		}
		w.visit(a.X, ctx, cross, marked)
	case *ssa.FreeVar:
		w.freevar(a, ctx, cross, marked)
	case *ssa.Global:
		if w.q.FollowGlobals && w.q.Prog != nil && w.q.Within == nil {
			for _, st := range w.q.Prog.globalStores(a) {
				if w.q.OnStateCross != nil {
					w.q.OnStateCross(x, st, st.Val)
				}
				w.visit(st.Val, nil, cross+1, marked)
			}
		}
	default:
		w.visit(a, ctx, cross, marked)
	}
}

// lookup: an element read from a map. When the map is held in a followed struct field the
// walk continues into every value inserted into that field's map anywhere in the repository.
func (w *pathWalker) lookup(x *ssa.Lookup, ctx *pathCtx, cross int, marked bool) {
	if w.q.FollowField != nil && w.q.Prog != nil && w.q.Within == nil {
		for _, leaf := range PhiLeaves(x.X) {
			f, base := LoadedField(leaf)
			if f == nil || allocRoot(base) != nil || !w.q.FollowField(f) {
				continue
			}
			for _, acc := range w.q.Prog.FieldAccessesOfKind(f, MapInsert) {
				if w.q.OnStateCross != nil {
					w.q.OnStateCross(x, acc.Instr, acc.Val)
				}
				w.visit(acc.Val, nil, cross+1, marked)
			}
		}
	}
	w.visit(x.X, ctx, cross, marked)
}

// single-entry cache (one Program at a time is analysed; older programs must stay collectable)
var globalStoreCache struct {
	p   *Program
	idx map[*ssa.Global][]*ssa.Store
}

// globalStores lists the stores to a package-level variable in repository code.
func (p *Program) globalStores(g *ssa.Global) []*ssa.Store {
	if globalStoreCache.p != p {
		idx := map[*ssa.Global][]*ssa.Store{}
		for _, fn := range p.RepoFuncs() {
			Instrs(fn, func(in ssa.Instruction) {
				if st, ok := in.(*ssa.Store); ok {
					if gl, isG := st.Addr.(*ssa.Global); isG {
						idx[gl] = append(idx[gl], st)
					}
				}
			})
		}
		globalStoreCache.p, globalStoreCache.idx = p, idx
	}
	return globalStoreCache.idx[g]
}

// reachingStores handles a read (at instruction at, in the allocating function) of a
// scalar local variable that lives in memory (captured by a closure or address-taken)
// flow-sensitively: only the stores that can reach the read without being overwritten by
// another store to the variable are followed, plus stores that may execute after at when at
// creates a closure (the closure may run later) and stores made inside closures. It reports
// false (nothing done) when the variable is not a plainly stored scalar.
func (w *pathWalker) reachingStores(al *ssa.Alloc, at ssa.Instruction, ctx *pathCtx, cross int, marked bool) bool {
	if al.Referrers() == nil || at.Parent() != al.Parent() {
		return false
	}
	var stores []*ssa.Store
	var closures []*ssa.MakeClosure
	for _, r := range *al.Referrers() {
		switch rr := r.(type) {
		case *ssa.Store:
			if rr.Addr != al {
				return false // the address itself is stored somewhere
			}
			stores = append(stores, rr)
		case *ssa.UnOp, *ssa.DebugRef:
		case *ssa.MakeClosure:
			closures = append(closures, rr)
		default:
			return false // field/index addressing, passed to a call, ...: whole-variable model
		}
	}
	w.res.Visited[al] = true
	avoid := map[ssa.Instruction]bool{}
	for _, st := range stores {
		avoid[st] = true
	}
	_, atIsClosure := at.(*ssa.MakeClosure)
	for _, st := range stores {
		delete(avoid, st)
		reaches := CanReachAvoiding(st, at, avoid)
		avoid[st] = true
		// a store after the closure's creation matters (the closure may run later) unless it
		// can only be reached by executing the variable's declaration again (a new variable)
		if reaches || (atIsClosure && CanReachAvoiding(at, st, map[ssa.Instruction]bool{al: true})) {
			w.visit(st.Val, ctx, cross, marked)
		}
	}
	// writes performed inside closures that capture the variable
	for _, mc := range closures {
		fn, ok := mc.Fn.(*ssa.Function)
		if !ok {
			continue
		}
		for i, b := range mc.Bindings {
			if b != ssa.Value(al) || i >= len(fn.FreeVars) || fn.FreeVars[i].Referrers() == nil {
				continue
			}
			for _, r := range *fn.FreeVars[i].Referrers() {
				if st, isStore := r.(*ssa.Store); isStore && st.Addr == ssa.Value(fn.FreeVars[i]) {
					w.visit(st.Val, ctx, cross, marked)
				}
			}
		}
	}
	return true
}

// memory: the values written into the local memory that addr denotes (the whole variable:
// writes to any part of the root allocation are considered).
func (w *pathWalker) memory(addr ssa.Value, ctx *pathCtx, cross int, marked bool) {
	var root ssa.Value
	if a := allocRoot(addr); a != nil {
		root = a
	}
	if ms, ok := addr.(*ssa.MakeSlice); ok {
		root = ms
	}
	if root == nil {
		return
	}
	w.res.Visited[root] = true
	seen := map[ssa.Value]bool{}
	var walk func(a ssa.Value)
	walk = func(a ssa.Value) {
		if seen[a] || a.Referrers() == nil {
			return
		}
		seen[a] = true
		for _, r := range *a.Referrers() {
			switch rr := r.(type) {
			case *ssa.Store:
				if rr.Addr == a {
					w.visit(rr.Val, ctx, cross, marked)
				}
			case *ssa.FieldAddr:
				if rr.X == a {
					walk(rr)
				}
			case *ssa.IndexAddr:
				if rr.X == a {
					walk(rr)
				}
			case *ssa.Slice:
				if rr.X == a {
					walk(rr)
				}
			case *ssa.MakeClosure:
				// captured by reference: stores inside the closure
				for i, b := range rr.Bindings {
					if b != a {
						continue
					}
					if fn, ok := rr.Fn.(*ssa.Function); ok && i < len(fn.FreeVars) {
						walk(fn.FreeVars[i])
					}
				}
			case ssa.CallInstruction:
				cal := CalleeOf(rr)
				args := rr.Common().Args
				if cal.Built == "copy" && len(args) == 2 && args[0] == a {
					w.visit(args[1], ctx, cross, marked)
				}
			}
		}
	}
	walk(root)
}

func (w *pathWalker) param(p *ssa.Parameter, ctx *pathCtx, cross int, marked bool) {
	fn := p.Parent()
	idx := -1
	for i, q := range fn.Params {
		if q == p {
			idx = i
		}
	}
	// leave the callee through the call site it was entered from
	if ctx != nil && idx >= 0 && CalleeOf(ctx.call).Static == fn {
		if args := ctx.call.Call.Args; idx < len(args) {
			w.visit(args[idx], ctx.parent, cross, marked)
		}
		return
	}
	if !w.q.FollowParams || w.q.Prog == nil || w.q.Within != nil || fn.Parent() != nil {
		w.res.Params = append(w.res.Params, p)
		return
	}
	sites := w.q.Prog.StaticCallers(fn)
	if idx < 0 || len(sites) == 0 {
		w.res.Params = append(w.res.Params, p)
		return
	}
	for _, site := range sites {
		args := site.Common().Args
		if idx < len(args) {
			w.visit(args[idx], nil, cross+1, marked)
		}
	}
}

func (w *pathWalker) freevar(fv *ssa.FreeVar, ctx *pathCtx, cross int, marked bool) {
	fn := fv.Parent()
	parent := fn.Parent()
	idx := -1
	for i, q := range fn.FreeVars {
		if q == fv {
			idx = i
		}
	}
	if parent == nil || idx < 0 || (w.q.Within != nil && w.q.Within != parent && w.q.Within != fn) {
		return
	}
	Instrs(parent, func(in ssa.Instruction) {
		if mc, ok := in.(*ssa.MakeClosure); ok && mc.Fn == fn && idx < len(mc.Bindings) {
			b := mc.Bindings[idx]
			if al, isAlloc := b.(*ssa.Alloc); isAlloc && w.reachingStores(al, mc, ctx, cross, marked) {
				return
			}
			if allocRoot(b) != nil {
				w.memory(b, ctx, cross, marked)
				return
			}
			w.visit(b, ctx, cross, marked)
		}
	})
}

// CallTargets returns the functions a call instruction may invoke when that is decidable
// from the instruction alone: the static callee, or - for a call through a local function
// value - every *ssa.Function the value can be (f := os.Remove; if c { f = os.RemoveAll }; f(p)).
// ok is false when some possible target is not a plain function.
func CallTargets(c ssa.CallInstruction) (fns []*ssa.Function, ok bool) {
	cc := c.Common()
	if cc.IsInvoke() {
		return nil, false
	}
	for _, l := range PhiLeaves(cc.Value) {
		switch f := l.(type) {
		case *ssa.Function:
			fns = append(fns, f)
		case *ssa.MakeClosure:
			if fn, isFn := f.Fn.(*ssa.Function); isFn {
				fns = append(fns, fn)
			} else {
				return nil, false
			}
		default:
			return nil, false
		}
	}
	return fns, len(fns) > 0
}

// MustPassOneOf reports whether every CFG path from the function entry to block b first
// executes the terminator of at least one block in via (blocks ending in the If
// instructions of interest). b itself is expected not to be in via.
func MustPassOneOf(fn *ssa.Function, b *ssa.BasicBlock, via map[*ssa.BasicBlock]bool) bool {
	if len(fn.Blocks) == 0 {
		return false
	}
	entry := fn.Blocks[0]
	if via[entry] {
		return true
	}
	if via[b] {
		return false
	}
	// Reach does not continue from via blocks: b reached means a via-free path exists.
	return !Reach(entry, nil, via)[b]
}
