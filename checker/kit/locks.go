package kit

import (
	"go/types"

	"golang.org/x/tools/go/ssa"
)

// LockOp classifies a sync.Mutex / sync.RWMutex operation.
type LockOp struct {
	Instr   ssa.Instruction
	Mutex   types.Object // the mutex field (or nil for local mutex values => MutexV)
	MutexV  ssa.Value    // address value of the mutex
	Acquire bool
	Read    bool // RLock/RUnlock
	Defer   bool
}

// lockOpOf recognises x.mu.Lock() etc.
func lockOpOf(in ssa.Instruction) (LockOp, bool) {
	call, ok := in.(ssa.CallInstruction)
	if !ok {
		return LockOp{}, false
	}
	c := CalleeOf(call)
	if c.Pkg != "sync" || (c.Recv != "Mutex" && c.Recv != "RWMutex") {
		return LockOp{}, false
	}
	var op LockOp
	switch c.Name {
	case "Lock":
		op.Acquire = true
	case "RLock":
		op.Acquire, op.Read = true, true
	case "Unlock":
	case "RUnlock":
		op.Read = true
	default:
		return LockOp{}, false
	}
	op.Instr = in
	_, op.Defer = in.(*ssa.Defer)
	recv := Receiver(call)
	op.MutexV = recv
	if fa, ok := recv.(*ssa.FieldAddr); ok {
		op.Mutex = FieldOfAddr(fa)
	}
	return op, true
}

// LockInfo is the result of the must-hold lock dataflow over one function.
type LockInfo struct {
	Fn  *ssa.Function
	Ops []LockOp
	// in[b] = mutexes certainly held on entry to b, with their acquiring instruction
	// (nil when different acquisitions merge).
	in map[*ssa.BasicBlock]map[types.Object]ssa.Instruction
}

// Locks runs the dataflow for fn. Deferred unlocks keep the lock held to the end.
func Locks(fn *ssa.Function) *LockInfo {
	li := &LockInfo{Fn: fn, in: map[*ssa.BasicBlock]map[types.Object]ssa.Instruction{}}
	Instrs(fn, func(in ssa.Instruction) {
		if op, ok := lockOpOf(in); ok {
			li.Ops = append(li.Ops, op)
		}
	})
	if len(fn.Blocks) == 0 {
		return li
	}
	type state = map[types.Object]ssa.Instruction
	transfer := func(b *ssa.BasicBlock, s state) state {
		out := state{}
		for k, v := range s {
			out[k] = v
		}
		for _, in := range b.Instrs {
			if op, ok := lockOpOf(in); ok && op.Mutex != nil && !op.Defer {
				if op.Acquire {
					out[op.Mutex] = in
				} else {
					delete(out, op.Mutex)
				}
			}
		}
		return out
	}
	var top state // nil = unvisited (top)
	outs := map[*ssa.BasicBlock]state{}
	li.in[fn.Blocks[0]] = state{}
	changed := true
	for iter := 0; changed && iter < 100; iter++ {
		changed = false
		for _, b := range fn.Blocks {
			var inS state
			if b == fn.Blocks[0] {
				inS = state{}
			} else {
				inS = top
				for _, p := range b.Preds {
					po, ok := outs[p]
					if !ok {
						continue
					}
					if inS == nil {
						inS = state{}
						for k, v := range po {
							inS[k] = v
						}
					} else {
						for k, v := range inS {
							pv, ok := po[k]
							if !ok {
								delete(inS, k)
							} else if pv != v {
								inS[k] = nil
							}
						}
					}
				}
				if inS == nil {
					continue
				}
			}
			o := transfer(b, inS)
			prev, had := outs[b]
			if !had || !sameState(prev, o) {
				outs[b] = o
				changed = true
			}
			li.in[b] = inS
		}
	}
	return li
}

func sameState(a, b map[types.Object]ssa.Instruction) bool {
	if len(a) != len(b) {
		return false
	}
	for k, v := range a {
		if w, ok := b[k]; !ok || w != v {
			return false
		}
	}
	return true
}

// HeldAt returns whether mutex is certainly held immediately before instruction
// `at`, and the acquiring instruction if unique.
func (li *LockInfo) HeldAt(at ssa.Instruction, mutex types.Object) (ssa.Instruction, bool) {
	b := at.Block()
	s := li.in[b]
	var acq ssa.Instruction
	held := false
	if s != nil {
		acq, held = s[mutex]
	}
	for _, in := range b.Instrs {
		if in == at {
			break
		}
		if op, ok := lockOpOf(in); ok && op.Mutex == mutex && !op.Defer {
			if op.Acquire {
				acq, held = in, true
			} else {
				acq, held = nil, false
			}
		}
	}
	return acq, held
}

// AnyHeldAt returns the set of mutex fields certainly held before `at`.
func (li *LockInfo) AnyHeldAt(at ssa.Instruction) []types.Object {
	seen := map[types.Object]bool{}
	var out []types.Object
	for _, op := range li.Ops {
		if op.Mutex == nil || seen[op.Mutex] {
			continue
		}
		seen[op.Mutex] = true
		if _, ok := li.HeldAt(at, op.Mutex); ok {
			out = append(out, op.Mutex)
		}
	}
	return out
}

// SameRegion reports whether a and b both execute with mutex held, acquired by
// the same Lock call, and no path from a to b releases it in between.
func (li *LockInfo) SameRegion(a, b ssa.Instruction, mutex types.Object) bool {
	acqA, okA := li.HeldAt(a, mutex)
	acqB, okB := li.HeldAt(b, mutex)
	if !okA || !okB || acqA == nil || acqA != acqB {
		return false
	}
	unlocks := map[ssa.Instruction]bool{}
	for _, op := range li.Ops {
		if op.Mutex == mutex && !op.Acquire && !op.Defer {
			unlocks[op.Instr] = true
		}
	}
	// some path a -> b without unlock must exist, and no path a -> unlock -> b
	if !CanReachAvoiding(a, b, unlocks) {
		return false
	}
	for u := range unlocks {
		if CanReach(a, u) && CanReach(u, b) && !CanReach(b, a) {
			return false
		}
	}
	return true
}

// MutexField finds the sync mutex field named name in the named struct, or nil.
func (p *Program) MutexField(pkg, typeName, name string) *types.Var {
	return p.Field(pkg, typeName, name)
}
