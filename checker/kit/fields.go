package kit

import (
	"go/token"
	"go/types"

	"golang.org/x/tools/go/ssa"
)

// FieldAccessKind classifies an access to a struct field.
type FieldAccessKind int

const (
	FieldStore   FieldAccessKind = iota // *(&x.f) = v   (also composite literal initialisation)
	FieldLoad                           // v = *(&x.f)   or x.f on a struct value
	FieldAddrUse                        // &x.f escapes into something else (method call on the field, passed on)
	MapInsert                           // x.f[k] = v
	MapDelete                           // delete(x.f, k)
	MapLookup                           // x.f[k]
	MapRange                            // range x.f
	FieldClear                          // clear(x.f) builtin
)

// FieldAccess is one access to a field somewhere in the repository.
type FieldAccess struct {
	Kind  FieldAccessKind
	Field *types.Var
	Fn    *ssa.Function
	Instr ssa.Instruction
	Base  ssa.Value // the struct (pointer) the field is selected from
	Val   ssa.Value // stored value (FieldStore, MapInsert)
	Key   ssa.Value // map key (MapInsert, MapDelete, MapLookup)
}

type fieldIndex struct {
	by map[*types.Var][]FieldAccess
}

func (p *Program) buildFieldIndex() {
	idx := &fieldIndex{by: map[*types.Var][]FieldAccess{}}
	add := func(a FieldAccess) { idx.by[a.Field] = append(idx.by[a.Field], a) }
	for _, fn := range p.RepoFuncs() {
		Instrs(fn, func(in ssa.Instruction) {
			switch x := in.(type) {
			case *ssa.Store:
				if fa, ok := x.Addr.(*ssa.FieldAddr); ok {
					if f := FieldOfAddr(fa); f != nil {
						add(FieldAccess{Kind: FieldStore, Field: f, Fn: fn, Instr: in, Base: fa.X, Val: x.Val})
					}
				}
			case *ssa.UnOp:
				if x.Op == token.MUL {
					if fa, ok := x.X.(*ssa.FieldAddr); ok {
						if f := FieldOfAddr(fa); f != nil {
							add(FieldAccess{Kind: FieldLoad, Field: f, Fn: fn, Instr: in, Base: fa.X})
						}
					}
				}
			case *ssa.Field:
				if f := FieldOfAddr(x); f != nil {
					add(FieldAccess{Kind: FieldLoad, Field: f, Fn: fn, Instr: in, Base: x.X})
				}
			case *ssa.MapUpdate:
				if f, base := mapField(x.Map); f != nil {
					add(FieldAccess{Kind: MapInsert, Field: f, Fn: fn, Instr: in, Base: base, Val: x.Value, Key: x.Key})
				}
			case *ssa.Lookup:
				if f, base := mapField(x.X); f != nil {
					add(FieldAccess{Kind: MapLookup, Field: f, Fn: fn, Instr: in, Base: base, Key: x.Index})
				}
			case *ssa.Range:
				if f, base := mapField(x.X); f != nil {
					add(FieldAccess{Kind: MapRange, Field: f, Fn: fn, Instr: in, Base: base})
				}
			case ssa.CallInstruction:
				c := CalleeOf(x)
				if c.Built == "delete" && len(x.Common().Args) == 2 {
					if f, base := mapField(x.Common().Args[0]); f != nil {
						add(FieldAccess{Kind: MapDelete, Field: f, Fn: fn, Instr: in, Base: base, Key: x.Common().Args[1]})
					}
				}
				if c.Built == "clear" && len(x.Common().Args) == 1 {
					if f, base := mapField(x.Common().Args[0]); f != nil {
						add(FieldAccess{Kind: FieldClear, Field: f, Fn: fn, Instr: in, Base: base})
					}
				}
			}
			// address uses: FieldAddr referenced by something other than a plain load/store
			if fa, ok := in.(*ssa.FieldAddr); ok {
				f := FieldOfAddr(fa)
				if f == nil || fa.Referrers() == nil {
					return
				}
				for _, r := range *fa.Referrers() {
					switch rr := r.(type) {
					case *ssa.Store:
						if rr.Addr == fa {
							continue
						}
					case *ssa.UnOp:
						if rr.Op == token.MUL {
							continue
						}
					}
					add(FieldAccess{Kind: FieldAddrUse, Field: f, Fn: fn, Instr: r, Base: fa.X})
				}
			}
		})
	}
	p.fieldIdx = idx
}

// mapField: if v is (a load of) a struct field holding a map, return that field.
func mapField(v ssa.Value) (*types.Var, ssa.Value) {
	for _, leaf := range PhiLeaves(v) {
		if f, base := LoadedField(leaf); f != nil {
			return f, base
		}
	}
	return nil, nil
}

// FieldAccesses returns every access to the field in repository code.
func (p *Program) FieldAccesses(f *types.Var) []FieldAccess {
	if p.fieldIdx == nil {
		p.buildFieldIndex()
	}
	return p.fieldIdx.by[f]
}

// FieldAccessesOfKind filters FieldAccesses.
func (p *Program) FieldAccessesOfKind(f *types.Var, kinds ...FieldAccessKind) []FieldAccess {
	var out []FieldAccess
	for _, a := range p.FieldAccesses(f) {
		for _, k := range kinds {
			if a.Kind == k {
				out = append(out, a)
			}
		}
	}
	return out
}

// StructFields lists the fields of a named struct type.
func StructFields(n *types.Named) []*types.Var {
	if n == nil {
		return nil
	}
	st, ok := n.Underlying().(*types.Struct)
	if !ok {
		return nil
	}
	var out []*types.Var
	for i := 0; i < st.NumFields(); i++ {
		out = append(out, st.Field(i))
	}
	return out
}
